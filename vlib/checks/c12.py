"""C12 — power states gate everything a node does, with the configured timing (DESIGN §C12)."""
from __future__ import annotations

import itertools
from typing import Any, Dict, List, Optional, Tuple

from hypothesis import strategies as st

from ..harness import CaseResult, Ctx, enum_run, hyp_run
from ..simutil import base_cfg, computer, exc_msg, exc_sig, link, new_game, switch

ID = "C12"
WORKERS = {"quick": 8, "thorough": 16}
RULE = (
    "case = (node type in computer/server/switch/router/firewall/wireless-router, start_up_duration, shut_down_duration, "
    "initial state, op sequence over {shutdown, startup, reset, tick, service request, file request, incoming ping, "
    "incoming ARP; in the random part and the families also application requests and API-level operations that end in "
    "NetworkInterface.enable()}) on a subject node 's' with an always-on peer 'p' (and a second peer 'q' behind network nodes). "
    "Exhaustive part: every sequence of the 8-symbol alphabet to depth 3 (quick) / 4 (thorough) that contains at least one "
    "shutdown or reset (sequences without one never leave ON), plus every sequence one op shorter on a node declared OFF, "
    "plus three enumerated families (whole power cycles after preparing PAUSED/STOPPED/DISABLED services and CLOSED "
    "applications; each enable()-reaching API operation once in each non-ON state; a multi-tick activity - application "
    "install, service restart/fix, application fix, folder scan/restore, node scans - started just before a shutdown or "
    "reset and ticked through the whole cycle, with a countdown+state fingerprint compared tick by tick while not ON), "
    "for every node type and every duration pair in {0,1}^2 "
    "(quick) / {0,1,2}^2 (thorough); random part: Hypothesis sequences to depth 25 (blocks 'power request + 0..8 ticks / "
    "foreign operations') with durations in {0..4}^2 and the initial state ON or OFF. After every op the reference power "
    "FSM is compared with Node.operating_state and, while the node is not ON, the gating battery runs (interfaces, "
    "monitors on its interfaces, its software, one well-formed "
    "request for EVERY leaf of the node's own request tree (30-126 routes, enumerated at run time; refused and state "
    "fingerprint unchanged), ping / ARP / directly delivered frames). Non-trivial = the sequence itself contains a service/file request "
    "or incoming ping/ARP issued while the node is transitional or OFF; distinct by hash of the whole case."
)
ASSUMPTIONS = [
    "requests are formed by the action classes' form_request (node-shutdown/startup/reset, node-service-*, node-file-*, "
    "host-nic-*, network-port-*, router-acl-add-rule, firewall-acl-add-rule, node-os-scan) or copied from the request tree",
    "a tick is PrimaiteGame.step() of a game without agents; T(d) is counted in such ticks from the accepted request",
    "both readings of 'for the configured duration' are accepted: T(d) in {d, d+1} for d>=1; T(0)=0; plus the "
    "convention-free relations T(d+1)-T(d)=1 and T independent of interleaved operations (memoised interference-free "
    "baseline runs of the same tree)",
    "reset: the automatic start may happen in the tick that completes the shutdown or in the next one (both accepted); "
    "with shut_down_duration 0 it may happen at once or at the next tick",
    "the model's initial state is the observed one (fidelity of the configured initial state belongs to C20); a mismatch "
    "is only counted (label init-mismatch)",
    "a frame handed straight to NetworkInterface.receive_frame (what Link.transmit_frame / AirSpace.transmit do) is an "
    "incoming frame; the copies delivered are frames captured earlier on that very interface",
    "when finding C12-instant-off-ifaces is open and reproduces, generated cases carry comp=[id]: after the root clause "
    "is reported the harness disables the subject's interfaces itself (what the proposed fix does) so that the search "
    "continues behind the defect; counted as excluded:<id>",
    "ping success while ON is measured (labels) but not asserted: the property does not state it",
    "back to ON: power_on 'starts all Services and Applications' (base_hardware.rst) => every service that was RUNNING, "
    "PAUSED or STOPPED and every application that was RUNNING or CLOSED when the node left ON is RUNNING afterwards; "
    "DISABLED / RESTARTING / INSTALLING software is not asserted either way",
    "a tick that starts and ends with the node not ON must leave every software/folder/file/node countdown and state as "
    "it was (idle folder countdowns <= 0 read as 0); the only exception is the tick completing a shutdown, where a "
    "service may go RUNNING/PAUSED -> STOPPED and an application RUNNING -> CLOSED (_shut_down_actions)",
    "API-level 'other operations' (interface.enable(), Router.enable_port, Firewall/WirelessRouter configure_*_port, "
    "Network.connect of a spare interface to an extra unlinked computer 'x', NetworkInterface.setup_for_episode) are "
    "public methods documented to refuse a node that is not powered on; they are issued in every power state",
]

KINDS = ["computer", "server", "switch", "router", "firewall", "wireless-router"]
HOSTS = ("computer", "server")
ROUTERS = ("router", "firewall", "wireless-router")
S, P, Q = "s", "p", "q"
COMP_IDS = ("C12-instant-off-ifaces",)

ON, OFF, BOOTING, SHUTTING_DOWN = "ON", "OFF", "BOOTING", "SHUTTING_DOWN"
STATUSES = ("success", "failure", "unreachable", "pending")

# ---------------------------------------------------------------------------------------------------------------------
# scenario


def _permit():
    return {1: {"action": "PERMIT"}}


X = "x"
SPARE_PORT = {"computer": 2, "server": 2, "switch": 3, "router": 3, "firewall": 3}  # free wired interface of the subject


def topo(kind: str, du: int, dd: int, init: str = ON, spare: bool = False) -> Dict:
    """spare=True adds an unlinked always-on computer 'x' (and a second NIC on a host subject) for cabling operations."""
    kw: Dict[str, Any] = dict(start_up_duration=du, shut_down_duration=dd)
    if spare and kind in HOSTS:
        kw["network_interfaces"] = {2: {"ip_address": "10.9.9.1", "subnet_mask": "255.255.255.0"}}
    if init == OFF:
        kw["operating_state"] = "OFF"
    z = dict(start_up_duration=0, shut_down_duration=0)
    m = "255.255.255.0"
    if kind in HOSTS:
        nodes = [computer(P, "192.168.1.10", **z), computer(S, "192.168.1.11", kind=kind, **kw)]
        links = [link(P, 1, S, 1)]
    elif kind == "switch":
        nodes = [computer(P, "192.168.1.10", **z), switch(S, 4, **kw), computer(Q, "192.168.1.12", **z)]
        links = [link(P, 1, S, 1), link(S, 2, Q, 1)]
    elif kind == "router":
        nodes = [
            computer(P, "192.168.1.10", gw="192.168.1.1", **z),
            dict(type="router", hostname=S, num_ports=3, acl=_permit(),
                 ports={1: {"ip_address": "192.168.1.1", "subnet_mask": m}, 2: {"ip_address": "192.168.2.1", "subnet_mask": m}},
                 **kw),
            computer(Q, "192.168.2.10", gw="192.168.2.1", **z),
        ]
        links = [link(P, 1, S, 1), link(S, 2, Q, 1)]
    elif kind == "firewall":
        acl = {k: _permit() for k in ("internal_inbound_acl", "internal_outbound_acl", "dmz_inbound_acl",
                                      "dmz_outbound_acl", "external_inbound_acl", "external_outbound_acl")}
        nodes = [
            computer(P, "192.168.1.10", gw="192.168.1.1", **z),
            dict(type="firewall", hostname=S, acl=acl,
                 ports={"external_port": {"ip_address": "192.168.1.1", "subnet_mask": m},
                        "internal_port": {"ip_address": "192.168.2.1", "subnet_mask": m}}, **kw),
            computer(Q, "192.168.2.10", gw="192.168.2.1", **z),
        ]
        links = [link(P, 1, S, 1), link(S, 2, Q, 1)]
    elif kind == "wireless-router":
        def wr(name, wired, air, route_to, hop, extra):
            return dict(type="wireless-router", hostname=name, acl=_permit(),
                        router_interface={"ip_address": wired, "subnet_mask": m},
                        wireless_access_point={"ip_address": air, "subnet_mask": m, "frequency": "WIFI_2_4"},
                        routes=[{"address": route_to, "subnet_mask": m, "next_hop_ip_address": hop, "metric": 0}], **extra)

        nodes = [
            computer(P, "192.168.1.10", gw="192.168.1.1", **z),
            wr(S, "192.168.1.1", "192.168.3.1", "192.168.2.0", "192.168.3.2", kw),
            wr("r2", "192.168.2.1", "192.168.3.2", "192.168.1.0", "192.168.3.1", z),
            computer(Q, "192.168.2.10", gw="192.168.2.1", **z),
        ]
        links = [link(P, 1, S, 2), link(Q, 1, "r2", 2)]  # port 1 of a wireless router is the access point
    else:
        raise ValueError(kind)
    if spare:
        nodes.append(computer(X, "10.9.9.2", **z))
    return base_cfg(nodes, links)


def to_ip(kind: str) -> Optional[str]:
    """Address of the subject itself as seen from p (a switch has none)."""
    return {"computer": "192.168.1.11", "server": "192.168.1.11", "switch": None}.get(kind, "192.168.1.1")


def through_ip(kind: str) -> Optional[str]:
    """Address of q, reachable from p only through the subject."""
    if kind in HOSTS:
        return None
    return "192.168.1.12" if kind == "switch" else "192.168.2.10"


def facing_port(kind: str) -> int:
    return 2 if kind == "wireless-router" else 1


# ---------------------------------------------------------------------------------------------------------------------
# requests (formed by the action classes wherever one exists)

_REQ_MEMO: Dict[str, Dict[str, List]] = {}
SVC_VERBS = ["scan", "stop", "start", "pause", "resume", "disable", "enable"]
APP_VERBS = ["close", "scan"]
API_OPS = ["enable", "enable_port", "configure", "connect", "episode"]
ACTS = ["install", "svc-restart", "svc-fix", "app-fix", "folder-scan", "folder-restore", "node-scan", "red-scan"]  # multi-tick
FILE_VERBS = ["create", "delete", "scan"]
FILE_NAMES = ["x.txt", "y.txt"]


def svc_name(kind: str) -> Optional[str]:
    if kind in HOSTS:
        return "dns-client"
    if kind in ROUTERS:
        return "terminal"
    return None


def requests(kind: str) -> Dict[str, List]:
    """key -> complete request. Keys are the structural part of signatures."""
    if kind in _REQ_MEMO:
        return _REQ_MEMO[kind]
    from primaite.game.agent.actions import ActionManager

    am = ActionManager()
    n = {"node_name": S}
    r: Dict[str, List] = {
        "shutdown": am.form_request("node-shutdown", n),
        "startup": am.form_request("node-startup", n),
        "reset": am.form_request("node-reset", n),
        "os-scan": am.form_request("node-os-scan", n),
        "node-scan": ["network", "node", S, "scan"],
        "folder-create": am.form_request("node-folder-create", {**n, "folder_name": "probe"}),
        "file-create:probe": am.form_request("node-file-create", {**n, "folder_name": "probe", "file_name": "p.txt"}),
    }
    for fn in FILE_NAMES:
        for v in FILE_VERBS:
            r[f"file-{v}:{fn}"] = am.form_request(f"node-file-{v}", {**n, "folder_name": "fa", "file_name": fn})
    port = facing_port(kind)
    app = "web-browser" if kind in HOSTS else ("nmap" if kind in ROUTERS else None)
    if app:
        for v in APP_VERBS:
            r[f"app-{v}"] = am.form_request(f"node-application-{v}", {**n, "application_name": app})
    if app:
        r["act-app-fix"] = am.form_request("node-application-fix", {**n, "application_name": app})
        r["act-install"] = am.form_request("node-application-install", {**n, "application_name": "database-client"})
    r["act-folder-scan"] = am.form_request("node-folder-scan", {**n, "folder_name": "root"})
    r["act-folder-restore"] = am.form_request("node-folder-restore", {**n, "folder_name": "root"})
    r["act-node-scan"] = am.form_request("node-os-scan", n)
    r["act-red-scan"] = ["network", "node", S, "scan"]
    if kind in HOSTS:
        r["nic-disable"] = am.form_request("host-nic-disable", {**n, "nic_num": port})
        r["nic-enable"] = am.form_request("host-nic-enable", {**n, "nic_num": port})
    else:
        r["nic-disable"] = am.form_request("network-port-disable", {"target_nodename": S, "port_num": port})
        r["nic-enable"] = am.form_request("network-port-enable", {"target_nodename": S, "port_num": port})
    sv = svc_name(kind)
    if sv:
        for v in SVC_VERBS:
            r[f"service-{v}"] = am.form_request(f"node-service-{v}", {**n, "service_name": sv})
        r["act-svc-restart"] = am.form_request("node-service-restart", {**n, "service_name": sv})
        r["act-svc-fix"] = am.form_request("node-service-fix", {**n, "service_name": sv})
    rule = dict(src_ip="ALL", protocol_name="icmp", permission="PERMIT", position=5, dst_ip="ALL", src_port="ALL",
                dst_port="ALL", src_wildcard="NONE", dst_wildcard="NONE")
    if kind in ROUTERS:
        r["acl-add-rule"] = am.form_request("router-acl-add-rule", {**rule, "target_router": S})
    if kind == "firewall":
        r["fw-acl-add-rule"] = am.form_request(
            "firewall-acl-add-rule",
            {**rule, "target_firewall_nodename": S, "firewall_port_name": "internal", "firewall_port_direction": "inbound"},
        )
    _REQ_MEMO[kind] = r
    return r


# every request route the node's own request manager offers (enumerated at run time, not a hand-written list)

_FORM_MEMO: Dict[str, List[List]] = {}
REFUSED = ("failure", "unreachable")


def formed_tails(kind: str) -> List[List]:
    """Requests formed by the agent-action classes for node `s`, without the ['network','node','s'] prefix.

    A leaf of the request tree takes its arguments from the first formed request it is a prefix of; leaves that no
    action addresses take them from MANUAL_ARGS (or take none, which is their documented form).
    """
    if kind in _FORM_MEMO:
        return _FORM_MEMO[kind]
    from primaite.game.agent.actions import ActionManager

    am = ActionManager()
    n = {"node_name": S}
    ip = "192.168.1.10"
    cmd = ["file_system", "create", "folder", "probe2"]
    rule = dict(src_ip="ALL", protocol_name="icmp", permission="PERMIT", position=5, dst_ip="ALL", src_port="ALL",
                dst_port="ALL", src_wildcard="NONE", dst_wildcard="NONE")
    nmap = {"source_node": S, "target_ip_address": ip, "show": False}
    forms = [
        ("node-file-create", {**n, "folder_name": "probe", "file_name": "p.txt"}),
        ("node-folder-create", {**n, "folder_name": "probe"}),
        ("node-file-delete", {**n, "folder_name": "probe", "file_name": "p.txt"}),
        ("node-file-access", {**n, "folder_name": "probe", "file_name": "p.txt"}),
        ("node-application-install", {**n, "application_name": "database-client"}),
        ("node-application-remove", {**n, "application_name": "web-browser" if kind in HOSTS else "nmap"}),
        ("node-nmap-ping-scan", nmap),
        ("node-nmap-port-scan", {**nmap, "target_port": 80, "target_protocol": "tcp"}),
        ("node-network-service-recon", {**nmap, "target_port": 80, "target_protocol": "tcp"}),
        ("node-account-add-user", {**n, "username": "probe", "password": "pw", "is_admin": False}),
        ("node-account-disable-user", {**n, "username": "probe"}),
        ("node-account-change-password", {**n, "username": "admin", "current_password": "admin", "new_password": "admin2"}),
        ("node-session-remote-login", {**n, "username": "admin", "password": "admin", "remote_ip": ip}),
        ("node-session-remote-logoff", {**n, "remote_ip": ip}),
        ("node-send-remote-command", {**n, "remote_ip": ip, "command": cmd}),
        ("node-send-local-command", {**n, "username": "admin", "password": "admin", "command": cmd}),
        ("configure-database-client", {**n, "server_ip_address": ip, "server_password": "pw"}),
        ("router-acl-add-rule", {**rule, "target_router": S}),
        ("router-acl-remove-rule", {"target_router": S, "position": 1}),
    ]
    for port in ("internal", "dmz", "external"):
        for direction in ("inbound", "outbound"):
            fw = {"target_firewall_nodename": S, "firewall_port_name": port, "firewall_port_direction": direction}
            forms.append(("firewall-acl-add-rule", {**rule, **fw}))
            forms.append(("firewall-acl-remove-rule", {**fw, "position": 1}))
    out = [am.form_request(a, o)[3:] for a, o in forms]
    _FORM_MEMO[kind] = out
    return out


MANUAL_ARGS: Dict[Tuple, List] = {
    ("file_system", "delete", "folder"): ["probe"],
    ("file_system", "restore", "file"): ["probe", "p.txt"],
    ("file_system", "restore", "folder"): ["probe"],
    ("service", "user-session-manager", "remote_login"): ["admin", "admin", "192.168.1.10"],
    ("service", "user-session-manager", "remote_logout"): ["no-such-session"],
    ("service", "ftp-client", "send"): [{"dest_ip_address": "192.168.1.10", "src_folder_name": "probe", "src_file_name": "p.txt",
                                          "dest_folder_name": "probe", "dest_file_name": "p.txt"}],
}


def leaf_request(kind: str, leaf: List) -> List:
    for tail in formed_tails(kind):
        if tail[: len(leaf)] == leaf and len(tail) > len(leaf):
            return ["network", "node", S] + [x if not isinstance(x, (dict, list)) else _copy(x) for x in tail]
    if len(leaf) == 4 and leaf[:2] == ["file_system", "folder"] and leaf[3] == "delete":
        return ["network", "node", S] + list(leaf) + ["p.txt"]  # folder/<name>/delete takes the file name
    return ["network", "node", S] + list(leaf) + _copy(MANUAL_ARGS.get(tuple(leaf), []))


def _copy(x):
    import copy

    return copy.deepcopy(x)


def leaf_key(leaf: List) -> str:
    """Structural name of a route: instance numbers and generated file/folder names are generalised."""
    out = []
    for i, part in enumerate(leaf):
        prev = leaf[i - 1] if i else None
        if prev == "network_interface":
            out.append("N")
        elif prev == "folder" and i >= 2 and leaf[i - 2] == "file_system":
            out.append("F")
        elif prev == "file" and "folder" in leaf[:i]:
            out.append("X")
        else:
            out.append(str(part))
    return "/".join(out)


def fingerprint(sim: "Sim") -> Tuple:
    """What a refused request must leave alone: power state and timers, interfaces, software states, ACLs, users, files."""
    n = sim.s
    c = n.config
    acls = []
    for name in ("acl", "internal_inbound_acl", "internal_outbound_acl", "dmz_inbound_acl", "dmz_outbound_acl",
                 "external_inbound_acl", "external_outbound_acl"):
        a = getattr(n, name, None)
        if a is not None:
            acls.append((name, tuple(str(r) for r in a.acl)))
    um = n.user_manager if n.software_manager.software.get("user-manager") else None
    users = tuple(sorted((u.username, u.password, u.disabled, u.is_admin) for u in um.users.values())) if um else ()
    fs = n.file_system
    files = tuple(sorted((f.name, f.deleted, tuple(sorted((x.name, x.deleted) for x in f.files.values())),
                          tuple(sorted(x.name for x in f.deleted_files.values()))) for f in fs.folders.values()))
    return (
        n.operating_state.name, c.start_up_countdown, c.shut_down_countdown, c.is_resetting,
        tuple(i.enabled for i in sim.ifaces.values()),
        tuple(sorted((x.name, x.operating_state.name, x.health_state_actual.name) for x in n.software_manager.software.values())),
        tuple(acls), users, files, tuple(sorted(f.name for f in fs.deleted_folders.values())),
        n.node_scan_countdown, n.red_scan_countdown,
    )


# ---------------------------------------------------------------------------------------------------------------------
# monitors: observe-only wrappers on the interface classes of the subject (installed in this process, nothing in /repo)

_MON: Dict[str, Any] = {"watch": {}, "log": [], "cap": {}}


def _ensure_wrapped(cls):
    for name in ("receive_frame", "send_frame"):
        cur = getattr(cls, name)
        if hasattr(cur, "_c12"):
            continue

        def make(orig, name):
            def wrapper(self, frame, *a, **kw):
                node = _MON["watch"].get(id(self))
                if node is None:
                    return orig(self, frame, *a, **kw)
                state = node.operating_state.name
                if name == "receive_frame" and state == ON:
                    _capture(self, frame)
                out = orig(self, frame, *a, **kw)
                _MON["log"].append(("rx" if name == "receive_frame" else "tx", state, bool(out)))
                return out

            wrapper._c12 = cls
            return wrapper

        setattr(cls, name, make(cur, name))


def _capture(iface, frame):
    """Keep a pristine copy of the latest ARP request and ICMP echo request that reached this interface while ON."""
    try:
        kind = None
        if getattr(frame, "icmp", None) is not None and frame.icmp.icmp_type.name == "ECHO_REQUEST":
            kind = "echo"
        elif getattr(frame, "is_arp", False) and getattr(frame.payload, "request", False):
            kind = "arp"
        if kind:
            _MON["cap"][(id(iface), kind)] = frame.model_copy(deep=True)
    except AttributeError:
        pass


# ---------------------------------------------------------------------------------------------------------------------
# simulation driver


class Sim:
    def __init__(self, kind: str, du: int, dd: int, init: str, watch: bool = True, spare: bool = False):
        self.kind = kind
        self.game = new_game(topo(kind, du, dd, init, spare))
        net = self.game.simulation.network
        self.net = net
        self.x = net.get_node_by_hostname(X) if spare else None
        self.s = net.get_node_by_hostname(S)
        self.p = net.get_node_by_hostname(P)
        self.q = net.get_node_by_hostname(Q) if kind not in HOSTS else None
        self.ifaces = dict(self.s.network_interface)
        self.to_ip, self.through_ip = to_ip(kind), through_ip(kind)
        self.reqs = requests(kind)
        if watch:
            _MON["watch"] = {}
            _MON["log"] = []
            _MON["cap"] = {}
            for i in self.ifaces.values():
                _ensure_wrapped(type(i))
                _MON["watch"][id(i)] = self.s

    def state(self) -> str:
        return self.s.operating_state.name

    def request(self, key: str):
        return self.game.simulation.apply_request(list(self.reqs[key]))

    def tick(self):
        self.game.step()

    def ping(self, ip: str) -> bool:
        return bool(self.p.ping(ip))

    def arp(self, ip: str) -> bool:
        """p forgets what it knows and asks for `ip` again; True if an answer came back."""
        from ipaddress import IPv4Address

        arp = self.p.software_manager.arp
        arp.clear()
        arp.send_arp_request(IPv4Address(ip))
        gw = self.p.config.default_gateway
        asked = IPv4Address(ip)
        if gw is not None and asked not in self.p.network_interface[1].ip_network:
            asked = IPv4Address(str(gw))
        return arp.get_arp_cache_mac_address(asked) is not None

    def drain(self) -> List[Tuple[str, str, bool]]:
        out = _MON["log"]
        _MON["log"] = []
        return out

    def enabled_ports(self) -> List[int]:
        return [n for n, i in self.ifaces.items() if i.enabled]

    def running(self) -> Tuple[set, set]:
        sv = {x.name for x in self.s.services.values() if x.operating_state.name == "RUNNING"}
        ap = {x.name for x in self.s.applications.values() if x.operating_state.name == "RUNNING"}
        return sv, ap

    def software_states(self) -> Tuple[Dict[str, str], Dict[str, str]]:
        return ({x.name: x.operating_state.name for x in self.s.services.values()},
                {x.name: x.operating_state.name for x in self.s.applications.values()})

    def activity_fp(self) -> Dict[str, Tuple]:
        """Countdowns and states of everything that takes several ticks; idle (<= 0) folder countdowns read as 0."""
        n = self.s
        sw = tuple(sorted(
            (x.name, "service" if x.name in {y.name for y in n.services.values()} else "application",
             x.operating_state.name, x.health_state_actual.name, x.health_state_visible.name, x._fixing_countdown,
             getattr(x, "restart_countdown", None), getattr(x, "install_countdown", None), x.fixing_count)
            for x in n.software_manager.software.values()))
        fs = tuple(sorted(
            (f.name, max(f.scan_countdown, 0), max(f.red_scan_countdown, 0), max(f.restore_countdown, 0),
             f.health_status.name, f.visible_health_status.name, f.deleted, f.revealed_to_red,
             tuple(sorted((x.name, x.health_status.name, x.visible_health_status.name, x.deleted) for x in f.files.values())))
            for f in n.file_system.folders.values()))
        return {"software": sw, "file_system": fs, "node": (n.node_scan_countdown, n.red_scan_countdown)}

    def links_up(self) -> List[str]:
        """Links attached to an interface of the subject that report themselves up."""
        mine = {id(i) for i in self.ifaces.values()}
        return [str(l) for l in self.net.links.values()
                if (id(l.endpoint_a) in mine or id(l.endpoint_b) in mine) and l.is_up]

    def api(self, name: str) -> bool:
        """API-level operations that end in NetworkInterface.enable(); False = not applicable to this node type."""
        s, kind = self.s, self.kind
        if name == "enable":
            for i in self.ifaces.values():
                i.enable()
        elif name == "episode":
            for i in self.ifaces.values():
                i.setup_for_episode(episode=1)
        elif name == "enable_port":
            if kind not in ROUTERS:
                return False
            for n in list(s.network_interface):
                s.enable_port(n)
        elif name == "configure":
            m = "255.255.255.0"
            if kind == "router":
                s.configure_port(1, "192.168.1.1", m)
                s.configure_port(2, "192.168.2.1", m)
                s.enable_port(1)
                s.enable_port(2)
            elif kind == "firewall":
                s.configure_external_port("192.168.1.1", m)
                s.configure_internal_port("192.168.2.1", m)
                s.configure_dmz_port("192.168.9.1", m)
            elif kind == "wireless-router":
                s.configure_router_interface("192.168.1.1", m)
                s.configure_wireless_access_point("192.168.3.1", m)
            else:
                return False
        elif name == "connect":
            port = SPARE_PORT.get(kind)
            if port is None or self.x is None:
                return False
            a, b = s.network_interface[port], self.x.network_interface[1]
            if a._connected_link is not None or b._connected_link is not None:
                return False
            self.net.connect(a, b)
        else:
            raise ValueError(name)
        return True


# ---------------------------------------------------------------------------------------------------------------------
# interference-free baseline T(kind, direction, d), memoised per process (a pure function of the tree under test)

_T_MEMO: Dict[Tuple[str, str, int], Optional[int]] = {}


def baseline_T(kind: str, direction: str, d: int) -> Optional[int]:
    key = (kind, direction, d)
    if key in _T_MEMO:
        return _T_MEMO[key]
    sim = Sim(kind, d if direction == "up" else 0, d if direction == "down" else 0, ON, watch=False)
    T: Optional[int] = None
    if sim.state() == ON and sim.request("shutdown").status == "success":
        if direction == "down":
            T = _count(sim, OFF, d + 3)
        elif _count(sim, OFF, 3) is not None and sim.request("startup").status == "success":
            T = _count(sim, ON, d + 3)
    _T_MEMO[key] = T
    return T


def _count(sim: Sim, goal: str, limit: int) -> Optional[int]:
    n = 0
    while sim.state() != goal:
        if n >= limit:
            return None
        sim.tick()
        n += 1
    return n


def check_baseline(kind: str, direction: str, d: int, res: CaseResult):
    name = "startup" if direction == "up" else "shutdown"
    T = baseline_T(kind, direction, d)
    if T is None:
        res.violate(f"timing-never-completes:{name}", f"{kind}: {name} with duration {d} did not complete within {d + 3} ticks")
        return
    if d == 0:
        if T != 0:
            res.violate(f"timing-zero-not-instant:{name}", f"{kind}: duration 0 but {name} took {T} ticks")
        return
    if T not in (d, d + 1):
        res.violate(f"timing-band:{name}", f"{kind}: {name} with duration {d} took {T} ticks (accepted: {d} or {d + 1})")
    T1 = baseline_T(kind, direction, d + 1)
    if T1 is None or T1 - T != 1:
        res.violate(f"timing-slope:{name}", f"{kind}: T({d})={T} but T({d + 1})={T1}; one more configured step must cost one tick")


# ---------------------------------------------------------------------------------------------------------------------
# reference power state machine


class Model:
    """Reference FSM. k = ticks spent in the current transitional state (None = unknown after a resync)."""

    def __init__(self, du: int, dd: int, state: str):
        self.du, self.dd = du, dd
        self.state = state
        self.k: Optional[int] = None if state in (BOOTING, SHUTTING_DOWN) else 0
        self.resetting = False
        self.pending = False  # OFF reached through a reset: the automatic start is due
        self.phase = {OFF: "off-initial", BOOTING: "booting", SHUTTING_DOWN: "shutting-down"}.get(state, "on")

    # candidates: state -> dict of fields to adopt
    def _started(self) -> Dict[str, Dict]:
        if self.du == 0:
            return {ON: dict(k=0, resetting=False, pending=False, phase="on")}
        return {BOOTING: dict(k=0, resetting=False, pending=False, phase="booting")}

    def _shut(self, via: str) -> Dict[str, Dict]:
        """The shutdown has just completed (via = off-instant | off-timed)."""
        if not self.resetting:
            return {OFF: dict(k=0, resetting=False, pending=False, phase=via)}
        out = {OFF: dict(k=0, resetting=False, pending=True, phase=via)}
        out.update(self._started())
        return out

    def accepts(self, op: str) -> bool:
        return self.state == (OFF if op == "startup" else ON)

    def after_accept(self, op: str) -> Dict[str, Dict]:
        if op == "startup":
            return self._started()
        self.resetting = op == "reset"
        if self.dd == 0:
            return self._shut("off-instant")
        return {SHUTTING_DOWN: dict(k=0, pending=False, phase="shutting-down")}

    def after_tick(self) -> Tuple[Dict[str, Dict], Optional[str]]:
        """Candidates after one tick, plus the transition name if the state is timed."""
        if self.state in (SHUTTING_DOWN, BOOTING):
            d = self.dd if self.state == SHUTTING_DOWN else self.du
            done = self._shut("off-timed") if self.state == SHUTTING_DOWN else {ON: dict(k=0, phase="on", resetting=False)}
            name = "shutdown" if self.state == SHUTTING_DOWN else "startup"
            if self.k is None:
                out = {self.state: dict()}
                out.update(done)
                return out, None
            k = self.k + 1
            out = {}
            if k <= d:
                out[self.state] = dict(k=k)
            if k >= d:
                for s_, f in done.items():
                    out[s_] = dict(f, T=k)
            return out, name
        if self.state == OFF and self.pending:
            return self._started(), None
        return {self.state: dict()}, None

    def adopt(self, state: str, fields: Dict):
        self.state = state
        for k_, v in fields.items():
            if k_ != "T":
                setattr(self, k_, v)

    def resync(self, state: str):
        self.state = state
        self.k = None if state in (BOOTING, SHUTTING_DOWN) else 0
        self.resetting = False
        self.pending = False
        self.phase = {OFF: "off", BOOTING: "booting", SHUTTING_DOWN: "shutting-down"}.get(state, "on")


# ---------------------------------------------------------------------------------------------------------------------
# gating invariants


def scan_monitor(sim: Sim, res: CaseResult, when: str, phase: str):
    for kind_, state, ok in sim.drain():
        if state != ON and ok:
            what = "accepted" if kind_ == "rx" else "emitted"
            res.violate(f"frame-{what}-not-on:{phase}", f"{when}: an interface of {sim.kind} '{S}' {what} a frame while {state}")


def check_not_on(sim: Sim, res: CaseResult, when: str, phase: str, comp: List[str]):
    """Everything the property says about a node that is not ON. `phase` tells how it got there (structural key)."""
    state = sim.state()
    w = f"{when} [{sim.kind} {state} via {phase}]"
    # 1. interfaces
    up = sim.enabled_ports()
    if up:
        res.violate(f"iface-enabled-not-on:{phase}", f"{w}: interfaces {up} are enabled")
        if phase == "off-instant" and "C12-instant-off-ifaces" in comp:
            for n in up:
                sim.ifaces[n].disable()
            res.label("excluded:C12-instant-off-ifaces")
    lk = sim.links_up()
    if lk:
        res.violate(f"link-up-not-on:{phase}", f"{w}: links {lk} to the node are up")
    # 2. software refuses to act
    for sw in list(sim.s.software_manager.software.values()):
        can = getattr(sw, "_can_perform_action", None)
        try:
            able = can is not None and can()
        except Exception as e:
            res.violate(f"raise:can-perform-action:{exc_sig(e)}", f"{w}: {sw.name}: {exc_msg(e)}")
            able = False
        if able:
            res.violate(f"software-can-act-not-on:{phase}", f"{w}: {sw.name}._can_perform_action() is True")
    if sim.kind != "switch":
        try:
            out = sim.s.ping(sim.p.network_interface[1].ip_address)
        except Exception as e:
            res.violate(f"raise:ping-out:{exc_sig(e)}", f"{w}: {exc_msg(e)}")
            out = False
        if out:
            res.violate(f"node-pings-out-not-on:{phase}", f"{w}: '{S}'.ping(p) succeeded")
    # 3. every request route the node offers, other than start-up from OFF, is refused and changes nothing
    leaves = sim.s._request_manager.get_request_types_recursively()
    before = fingerprint(sim)
    group = None
    for leaf in leaves + [None]:
        top = leaf[0] if leaf else None
        if top != group:
            if group is not None:
                after = fingerprint(sim)
                if after != before:
                    changed = [i for i, (x, y) in enumerate(zip(before, after)) if x != y]
                    res.violate(f"refused-request-changed-state:{group}", f"{w}: requests under '{group}' changed "
                                f"fingerprint fields {changed}: {[before[i] for i in changed]} -> {[after[i] for i in changed]}"[:600])
                    before = after
            group = top
        if leaf is None or (leaf == ["startup"] and state == OFF):
            continue
        key = leaf_key(leaf)
        req = leaf_request(sim.kind, leaf)
        try:
            status = sim.game.simulation.apply_request(req).status
        except Exception as e:
            res.violate(f"raise:request:{key}:{exc_sig(e)}", f"{w}: {req} raised {exc_msg(e)}")
            continue
        if status == "success":
            res.violate(f"request-succeeds-not-on:{key}", f"{w}: {req} -> success")
        elif status not in REFUSED:
            res.violate(f"request-not-refused-not-on:{key}", f"{w}: {req} -> {status}")
    lab = f"routes:{sim.kind}={len(leaves)}"
    if lab not in res.labels:
        res.label(lab)
    # 4. traffic from the network
    try:
        if sim.to_ip and sim.ping(sim.to_ip):
            res.violate(f"ping-answered-not-on:{phase}", f"{w}: p.ping({sim.to_ip}) succeeded")
        if sim.through_ip and sim.ping(sim.through_ip):
            res.violate(f"traffic-forwarded-not-on:{phase}", f"{w}: p.ping({sim.through_ip}) through '{S}' succeeded")
        if sim.to_ip and sim.arp(sim.to_ip):
            res.violate(f"arp-answered-not-on:{phase}", f"{w}: ARP request for {sim.to_ip} was answered")
        if sim.kind == "switch" and sim.arp(sim.through_ip):
            res.violate(f"traffic-forwarded-not-on:{phase}", f"{w}: ARP request for {sim.through_ip} crossed '{S}'")
    except Exception as e:
        res.violate(f"raise:traffic:{exc_sig(e)}", f"{w}: {exc_msg(e)}")
    # 5. frames handed straight to its interfaces (copies of frames the interface received earlier)
    delivered = 0
    for iface in sim.ifaces.values():
        for kind_ in ("echo", "arp"):
            fr = _MON["cap"].get((id(iface), kind_))
            if fr is None:
                continue
            delivered += 1
            try:
                iface.receive_frame(fr.model_copy(deep=True))
            except Exception as e:
                res.violate(f"raise:deliver:{exc_sig(e)}", f"{w}: {exc_msg(e)}")
    if delivered:
        res.label("delivered-direct")
    # 6. what the monitors saw during all of the above
    scan_monitor(sim, res, w, phase)
    # 7. OFF: nothing runs
    if state == OFF:
        sv, ap = sim.running()
        if sv:
            res.violate(f"service-running-when-off:{phase}", f"{w}: services RUNNING: {sorted(sv)}")
        if ap:
            res.violate(f"application-running-when-off:{phase}", f"{w}: applications RUNNING: {sorted(ap)}")


# ---------------------------------------------------------------------------------------------------------------------


def check_frozen(sim: Sim, res: CaseResult, when: str, phase: str, state0: str, fp0: Dict[str, Tuple]):
    """A tick that starts and ends with the node not ON: nothing that takes time may advance, no software / file-system
    state may change, except what _shut_down_actions does in the tick that completes the shutdown."""
    fp1 = sim.activity_fp()
    state1 = sim.state()
    if state0 == SHUTTING_DOWN and state1 != SHUTTING_DOWN:
        stop = {("service", "RUNNING"): "STOPPED", ("service", "PAUSED"): "STOPPED", ("application", "RUNNING"): "CLOSED"}
        sw1 = {r[0]: r for r in fp1["software"]}
        rows = []
        for r in fp0["software"]:  # operating state may stay or become what _shut_down_actions makes of it
            r1 = sw1.get(r[0])
            if r1 is not None and r1[2] in (r[2], stop.get((r[1], r[2]))):
                r = r[:2] + (r1[2],) + r[3:]
            rows.append(r)
        fp0 = dict(fp0)
        fp0["software"] = tuple(rows)
    for part in ("software", "file_system", "node"):
        if fp0[part] != fp1[part]:
            a, b = fp0[part], fp1[part]
            diff = [(x, y) for x, y in zip(a, b) if x != y][:2] if len(a) == len(b) and part != "node" else [(a, b)]
            res.violate(f"activity-progressed-not-on:{part}:{phase}",
                        f"{when}: node went {state0} -> {state1} in this tick and {part} changed: {diff}"[:700])


class _Raised(Exception):
    """The code under test raised; the violation is already recorded and the case stops here."""


def guarded(res: CaseResult, what: str, when: str, fn, *a):
    """Driver boundary: only calls into the simulation go through here; harness errors propagate."""
    try:
        return fn(*a)
    except Exception as e:
        res.violate(f"raise:{what}:{exc_sig(e)}", f"{when}: {exc_msg(e)}")
        raise _Raised()


def op_key(op: List) -> Optional[str]:
    if op[0] == "svc":
        return f"service-{op[1]}"
    if op[0] == "file":
        return f"file-{op[1]}:{op[2]}"
    if op[0] == "app":
        return f"app-{op[1]}"
    if op[0] == "act":
        return f"act-{op[1]}"
    return None


def run_case(case: Dict) -> CaseResult:
    res = CaseResult()
    kind, du, dd = case["kind"], int(case["du"]), int(case["dd"])
    init = case.get("init", ON)
    comp = list(case.get("comp", []))
    ops = case["ops"]

    check_baseline(kind, "down", dd, res)
    check_baseline(kind, "up", du, res)

    sim = Sim(kind, du, dd, init, spare=any(list(o) == ["api", "connect"] for o in ops))
    obs = sim.state()
    if obs != init:
        res.label("init-mismatch")
    model = Model(du, dd, obs)
    ports0: List[int] = []
    last_states: Tuple[Dict[str, str], Dict[str, str]] = ({}, {})
    ever_on = False

    def on_bookkeeping(first: bool, when: str):
        nonlocal ports0, last_states, ever_on
        if first and not ever_on:
            # calibration of the traffic oracles on the pristine, powered network
            ok = True
            if sim.to_ip:
                ok = sim.ping(sim.to_ip) and ok
            if sim.through_ip:
                ok = sim.ping(sim.through_ip) and ok
            if sim.to_ip:
                ok = sim.arp(sim.to_ip) and ok
            if not ok and init == ON and when == "init":
                raise RuntimeError(f"C12 harness: calibration ping failed on a fresh {kind} network")
            res.label("calibrated" if ok else "calibration-failed")
            ports0 = sim.enabled_ports()
            ever_on = True
        last_states = sim.software_states()

    if obs == ON:
        on_bookkeeping(True, "init")
        scan_monitor(sim, res, "init", "on")
    else:
        check_not_on(sim, res, "init", model.phase, comp)

    for op in ops:
        if op[0] not in ("shutdown", "startup", "reset", "tick", "svc", "file", "app", "api", "act", "ping", "arp") or (
            op[0] == "api" and op[1] not in API_OPS
        ) or (op[0] == "act" and op[1] not in ACTS):
            raise ValueError(f"C12 harness: unknown op {op}")
    nontrivial = False
    seen = {obs}
    for i, op in enumerate(ops):
        k = op[0]
        when = f"op#{i} {op}"
        pre = model.state
        pre_phase = model.phase
        T_done: Optional[Tuple[str, int]] = None
        try:
            if k in ("shutdown", "startup", "reset"):
                status = guarded(res, k, when, sim.request, k).status
                if status not in STATUSES:
                    res.violate("bad-status", f"{when}: {status}")
                if model.accepts(k):
                    cands = model.after_accept(k)
                    if status != "success":
                        res.violate(f"power-request-refused:{k}", f"{when}: node is {pre} but {k} -> {status}")
                        cands = dict(cands)
                        cands.setdefault(pre, dict())
                else:
                    cands = {pre: dict()}
                    if status == "success":
                        res.violate(f"power-request-accepted:{k}:{pre_phase}", f"{when}: node is {pre} but {k} -> success")
                name = None
            elif k == "tick":
                fp0 = sim.activity_fp() if sim.state() != ON else None
                state0 = sim.state()
                guarded(res, k, when, sim.tick)
                cands, name = model.after_tick()
                if fp0 is not None and sim.state() != ON:
                    check_frozen(sim, res, when, pre_phase, state0, fp0)
            elif k == "api":
                if not guarded(res, f"api-{op[1]}", when, sim.api, op[1]):
                    res.label("op-not-applicable")
                    continue
                res.label(f"api:{op[1]}:{'on' if pre == ON else pre_phase}")
                if pre != ON:
                    nontrivial = True
                cands, name = {pre: dict()}, None
            elif k in ("svc", "file", "app", "act"):
                key = op_key(op)
                if key not in sim.reqs:
                    res.label("op-not-applicable")
                    continue
                status = guarded(res, key, when, sim.request, key).status
                if status not in STATUSES:
                    res.violate("bad-status", f"{when}: {status}")
                if k == "act" and pre == ON:
                    res.label(f"act:{op[1]}:{status}")
                if pre != ON:
                    nontrivial = True
                    if status == "success":
                        res.violate(f"request-succeeds-not-on:{key}", f"{when}: node is {pre} ({pre_phase}) -> success")
                cands, name = {pre: dict()}, None
            else:  # ping / arp arriving from p
                if pre != ON:
                    nontrivial = True
                for ip, through in ((sim.to_ip, False), (sim.through_ip, True)):
                    if not ip or (k == "arp" and (through != (kind == "switch"))):
                        continue
                    got = guarded(res, k, when, sim.ping if k == "ping" else sim.arp, ip)
                    if pre != ON and got:
                        clause = "traffic-forwarded" if through else ("ping-answered" if k == "ping" else "arp-answered")
                        res.violate(f"{clause}-not-on:{pre_phase}", f"{when}: node is {pre} but p's {k} to {ip} was answered")
                    elif pre == ON:
                        res.label(f"{k}-ok-on" if got else f"{k}-fail-on")
                cands, name = {pre: dict()}, None
        except _Raised:
            break

        obs = sim.state()
        seen.add(obs)
        if obs in cands:
            f = cands[obs]
            if "T" in f and name:
                T_done = (name, f["T"])
            model.adopt(obs, f)
        else:
            # classify against the reference machine, then follow the implementation so that one defect is reported once
            if k == "tick" and pre in (SHUTTING_DOWN, BOOTING) and model.k is not None:
                d = dd if pre == SHUTTING_DOWN else du
                if obs == pre:
                    res.violate(f"timing-late:{name}", f"{when}: still {pre} after {model.k + 1} ticks, duration {d}")
                elif (pre == SHUTTING_DOWN and obs in model._shut("off-timed")) or (pre == BOOTING and obs == ON):
                    res.violate(f"timing-early:{name}", f"{when}: {pre} -> {obs} after {model.k + 1} ticks, duration {d}")
                else:
                    res.violate(f"fsm:{k}:{pre}->{obs}", f"{when}: expected one of {sorted(cands)}")
            elif k == "tick" and pre == OFF and model.pending and obs == OFF:
                res.violate(f"reset-no-restart:{pre_phase}", f"{when}: reset reached OFF but the node did not start again at the next tick")
            else:
                res.violate(f"fsm:{k}:{pre}->{obs}", f"{when}: expected one of {sorted(cands)} (durations up={du} down={dd})")
            model.resync(obs)
        if T_done:
            name_, T = T_done
            res.label(f"timed:{name_}" + (":autostart" if name_ == "shutdown" and obs != OFF else ""))
            base = baseline_T(kind, "down" if name_ == "shutdown" else "up", dd if name_ == "shutdown" else du)
            if base is not None and T != base:
                res.violate(f"timing-interference:{name_}", f"{when}: {name_} took {T} ticks here, {base} in an undisturbed run")

        # consequences
        if obs == ON:
            scan_monitor(sim, res, when, "on")
            if pre != ON:
                res.label("back-on")
                if not ever_on:
                    on_bookkeeping(True, when)
                else:
                    down = [n for n in ports0 if not sim.ifaces[n].enabled]
                    if down:
                        res.violate("iface-not-enabled-back-on", f"{when}: interfaces {down} were up before and are disabled after the return to ON")
                    # power_on 'starts all Services and Applications' (base_hardware.rst): whatever was RUNNING, PAUSED or
                    # STOPPED / CLOSED when the node left ON runs again; DISABLED, RESTARTING, INSTALLING are not asserted
                    sv, ap = sim.software_states()
                    for name_, was in sorted(last_states[0].items()):
                        if was in ("RUNNING", "PAUSED", "STOPPED") and sv.get(name_) != "RUNNING":
                            res.violate(f"service-not-running-back-on:was-{was.lower()}",
                                        f"{when}: service {name_} was {was} when the node left ON and is {sv.get(name_)} after the power cycle")
                    for name_, was in sorted(last_states[1].items()):
                        if was in ("RUNNING", "CLOSED") and ap.get(name_) != "RUNNING":
                            res.violate(f"application-not-running-back-on:was-{was.lower()}",
                                        f"{when}: application {name_} was {was} when the node left ON and is {ap.get(name_)} after the power cycle")
                    for was in sorted(set(last_states[0].values()) | set(last_states[1].values())):
                        res.label(f"cycle-with:{was}")
            on_bookkeeping(False, when)
        else:
            scan_monitor(sim, res, when, model.phase)
            check_not_on(sim, res, when, model.phase, comp)
            now = sim.state()
            if now != obs:  # a probe moved the node: already reported by the battery; follow it
                model.resync(now)
                seen.add(now)

    res.nontrivial = nontrivial
    res.label(f"kind:{kind}", f"len<{(len(ops) // 5 + 1) * 5}")
    res.label(*[f"saw:{s_}" for s_ in sorted(seen)])
    if nontrivial:
        res.label("nontrivial")
    if dd == 0:
        res.label("down0")
    if du == 0:
        res.label("up0")
    if init == OFF:
        res.label("init-off")
    if any(o[0] == "reset" for o in ops):
        res.label("has-reset")
    return res


# ---------------------------------------------------------------------------------------------------------------------
# generators

ALPHABET = [["shutdown"], ["startup"], ["reset"], ["tick"], ["svc", "scan"], ["file", "create", "x.txt"], ["ping"], ["arp"]]


POWER = [["shutdown"], ["startup"], ["reset"]]


def noise_strategy():
    """Ticks (about half) and foreign operations that may fall into any power state."""
    return st.one_of(
        st.just(["tick"]),
        st.just(["tick"]),
        st.just(["tick"]),
        st.just(["tick"]),
        st.tuples(st.just("svc"), st.sampled_from(SVC_VERBS)).map(list),
        st.tuples(st.just("svc"), st.sampled_from(["pause", "stop", "disable"])).map(list),
        st.tuples(st.just("file"), st.sampled_from(FILE_VERBS), st.sampled_from(FILE_NAMES)).map(list),
        st.tuples(st.just("app"), st.sampled_from(APP_VERBS)).map(list),
        st.tuples(st.just("api"), st.sampled_from(API_OPS)).map(list),
        st.tuples(st.just("api"), st.sampled_from(API_OPS)).map(list),
        st.tuples(st.just("act"), st.sampled_from(ACTS)).map(list),
        st.tuples(st.just("act"), st.sampled_from(ACTS)).map(list),
        st.just(["ping"]),
        st.just(["arp"]),
    )


def ops_strategy(max_len: int):
    """Blocks 'power request, then 0..8 ticks/foreign ops' so that whole power cycles with durations up to 4 are common."""
    block = st.tuples(st.sampled_from(POWER), st.lists(noise_strategy(), min_size=0, max_size=8)).map(
        lambda t: [list(t[0])] + [list(o) for o in t[1]]
    )
    return st.tuples(st.lists(noise_strategy(), min_size=0, max_size=2), st.lists(block, min_size=1, max_size=6)).map(
        lambda t: ([list(o) for o in t[0]] + [o for b in t[1] for o in b])[:max_len]
    )


def case_strategy(max_len: int, comp: List[str]):
    dur = st.sampled_from([0, 0, 1, 1, 2, 3, 4])
    d = {
        "kind": st.sampled_from(KINDS),
        "du": dur,
        "dd": dur,
        "init": st.sampled_from([ON, ON, ON, OFF]),
        "ops": ops_strategy(max_len),
    }
    if comp:
        d["comp"] = st.just(list(comp))
    return st.fixed_dictionaries(d)


def exhaustive_cases(depth: int, durs: List[int], comp: List[str]):
    def mk(kind, du, dd, init, seq):
        c = {"kind": kind, "du": du, "dd": dd, "init": init, "ops": [list(o) for o in seq]}
        if comp:
            c["comp"] = list(comp)
        return c

    for seq in itertools.product(ALPHABET, repeat=depth):
        if not any(o[0] in ("shutdown", "reset") for o in seq):
            continue
        for kind in KINDS:
            for du in durs:
                for dd in durs:
                    yield mk(kind, du, dd, ON, seq)
    # declared OFF: every sequence one op shorter (every node type is probed OFF-as-declared, BOOTING, and back ON)
    for seq in itertools.product(ALPHABET, repeat=depth - 1):
        for kind in KINDS:
            for du in durs:
                for dd in durs:
                    yield mk(kind, du, dd, OFF, seq)
    yield from family_cases(durs, mk)


PREPS = [[], [["svc", "pause"]], [["svc", "stop"]], [["svc", "disable"]], [["app", "close"]], [["svc", "pause"], ["app", "close"]]]


def family_cases(durs: List[int], mk):
    """Two enumerated families that need more depth than the exhaustive part has.

    (a) whole power cycles with prepared software states: prep, shutdown|reset, ticks until OFF, (startup,) ticks until ON;
    (c) a multi-tick activity (application install, service restart / fix, application fix, folder scan / restore, node
        scans) started just before a shutdown or reset, then ticks through the whole cycle;
    (b) every API-level operation that ends in NetworkInterface.enable(), issued once in each non-ON state
        (SHUTTING_DOWN, OFF, BOOTING; declared OFF, BOOTING from declared OFF) and followed by a ping from the peer.
    """
    T = ["tick"]
    for kind in KINDS:
        for du in durs:
            for dd in durs:
                for prep in PREPS:
                    for via in ("shutdown", "reset"):
                        ops = prep + [[via]] + [T] * (dd + 1) + ([["startup"]] if via == "shutdown" else []) + [T] * (du + 1) + [["ping"]]
                        yield mk(kind, du, dd, ON, ops)
                for act in ACTS:
                    for via in ("shutdown", "reset"):
                        ops = [["act", act], [via]] + [T] * (dd + 3) + ([["startup"]] if via == "shutdown" else []) + [T] * (du + 3)
                        yield mk(kind, du, dd, ON, ops)
                for api in API_OPS:
                    a, down = ["api", api], [["shutdown"]] + [T] * (dd + 1)
                    yield mk(kind, du, dd, ON, [["shutdown"], a, ["ping"]])  # SHUTTING_DOWN (OFF when dd = 0)
                    yield mk(kind, du, dd, ON, down + [a, ["ping"]])  # OFF
                    yield mk(kind, du, dd, ON, down + [["startup"], a, ["ping"], T])  # BOOTING (ON when du = 0)
                    yield mk(kind, du, dd, OFF, [a, ["ping"]])  # declared OFF
                    yield mk(kind, du, dd, OFF, [["startup"], a, ["ping"], T])  # declared OFF, then BOOTING


def n_family(durs: List[int]) -> int:
    return len(KINDS) * len(durs) ** 2 * (len(PREPS) * 2 + len(API_OPS) * 5 + len(ACTS) * 2)


def worker(ctx: Ctx):
    comp = [i for i in COMP_IDS if ctx.excl.get(i)]
    quick = ctx.tier == "quick"
    depth, durs = (3, [0, 1]) if quick else (4, [0, 1, 2])
    enum_run(ctx, exhaustive_cases(depth, durs, comp), run_case)
    n_seq = len(ALPHABET) ** depth - (len(ALPHABET) - 2) ** depth
    n_off = len(ALPHABET) ** (depth - 1)
    per = len(KINDS) * len(durs) ** 2
    ctx.extra["exhaustive"] = True
    ctx.extra["exhaustive_domain"] = (
        f"({n_seq} sequences of length {depth} over the 8-symbol alphabet containing a shutdown or reset, initial state ON, "
        f"+ all {n_off} sequences of length {depth - 1}, declared OFF) x {len(KINDS)} node types x durations {durs}^2 = "
        f"{(n_seq + n_off) * per} cases; + {n_family(durs)} enumerated family cases (power cycles with prepared PAUSED/STOPPED/"
        f"DISABLED/CLOSED software; every enable()-reaching API operation in every non-ON state; multi-tick activities in "
        f"flight across a shutdown/reset)"
    )
    hyp_run(ctx, case_strategy(25, comp), run_case, 100 if quick else 1500)
