"""C18 — independent per-tick per-link accounting monitor (observe-only class-level wrappers, check process only).

Wrapped (each wrapper calls the original with the original arguments and returns its result unchanged):
  * ``receive_frame`` / ``send_frame`` on every class in the NetworkInterface hierarchy that defines one,
  * ``Link.can_transmit_frame`` / ``Link.transmit_frame``,
  * ``AirSpace.can_transmit_frame`` / ``AirSpace.transmit``.

While no monitor is active (``activate(None)``) the wrappers are pass-throughs.  Bandwidths / capacities are NOT read from
the simulator objects: the check passes in what the scenario dict says.

Accounting convention (see DESIGN §C18): a frame is *carried* by a wired link when the interface at the other end has its
``receive_frame`` entered; its size is measured at that moment (the crossing).  For the airspace the property speaks of
data *sent* on a channel, so a frame counts once, at the entry of ``AirSpace.transmit``.
"""
from __future__ import annotations

from typing import Any, Dict, List, Optional

EPS = 1e-9

_ACTIVE: List[Optional["Monitor"]] = [None]
_INSTALLED = [False]


def activate(m: Optional["Monitor"]):
    _ACTIVE[0] = m


class LinkAcct:
    __slots__ = ("name", "bw", "tight", "link", "carried", "counted", "rejected", "inflight", "nested_adm", "reported",
                 "peak", "went_down", "came_up", "down_at_start")

    def __init__(self, name: str, bw: float, tight: bool, link):
        self.name, self.bw, self.tight, self.link = name, bw, tight, link
        self.reset()

    def reset(self):
        self.carried = 0.0  # sizes of every frame whose delivery was entered this tick
        self.counted = 0.0  # ... of those whose receive_frame returned True (what the code's own convention loads)
        self.rejected = 0.0  # ... of those whose receive_frame returned False (crossed the link, never loaded)
        self.inflight: List[float] = []  # deliveries on this link that have been entered and not yet returned
        self.nested_adm = 0  # frames admitted on this link while another delivery on it was still in progress
        self.reported: set = set()  # clauses already reported for this link in this tick
        self.peak = 0.0
        self.went_down = False
        self.came_up = False  # endpoint_up ran this tick
        self.down_at_start = False  # an end interface was disabled right after pre_timestep


class Monitor:
    """One per case.  `violate(sig, msg)` is CaseResult.violate."""

    def __init__(self, violate, links: Dict[int, LinkAcct], air_caps: Dict[int, float], airspace=None, trace=None):
        self.violate = violate
        self.links = links  # id(Link) -> LinkAcct
        self.air_caps = air_caps  # frequency_hz -> capacity in Mbit according to the scenario
        self.airspace = airspace
        self.trace = trace  # optional list: calibration records
        self.tick = 0
        self.active_rx: set = set()
        self.active_tx: set = set()
        self.adm: Dict[tuple, tuple] = {}  # (id(medium), id(frame)) -> (load at admission, size at admission)
        self.tx_stack: List[Dict[str, Any]] = []
        self.send_stack: List[Dict[str, Any]] = []
        self.air_stack: List[Any] = []
        self.air_sent: Dict[int, float] = {}
        self.air_reported: set = set()
        # counters for the evidence
        self.deliveries = 0
        self.refusals = 0
        self.refusals_tick = 0
        self.air_refusals = 0
        self.nested_total = 0
        self.rejected_total = 0
        self.air_tx = 0
        self.half_tight = False  # some tight link reached >= 50 % this tick
        self.half_tight_air = False
        self.reset_seen = False
        self.down_attempts = 0  # admission checks on a link one of whose end interfaces was disabled
        self.never_enabled_links = 0
        self.nontrivial_ticks = 0

    # ---------------------------------------------------------------------------------------------------------------
    # tick protocol (driven by the check)

    def begin_tick(self):
        """Call immediately BEFORE pre_timestep: the independent sums restart here."""
        for a in self.links.values():
            a.reset()
        self.air_sent = {}
        self.air_reported = set()
        self.adm.clear()
        self.refusals_tick = 0
        self.half_tight = False
        self.tick += 1

    def after_pre_timestep(self):
        """Right after pre_timestep both the code's load and the independent sum are 0."""
        for a in self.links.values():
            if a.link.current_load != 0.0:
                self.violate("load-nonzero-at-tick-start:wired",
                             f"tick {self.tick}: {a.name} current_load={a.link.current_load!r} right after pre_timestep")
            if a.carried != 0.0:
                self.violate("traffic-during-pre-timestep:wired",
                             f"tick {self.tick}: {a.name} carried {a.carried!r} Mbit while pre_timestep ran")
            a.down_at_start = not (a.link.endpoint_a.enabled and a.link.endpoint_b.enabled)
            self.check_is_up(a, "right after pre_timestep")
        if self.airspace is not None:
            for hz, v in self.airspace.bandwidth_load.items():
                if v != 0.0:
                    self.violate("load-nonzero-at-tick-start:wireless",
                                 f"tick {self.tick}: frequency {hz} bandwidth_load={v!r} right after pre_timestep")
            for hz, v in self.air_sent.items():
                if v != 0.0:
                    self.violate("traffic-during-pre-timestep:wireless", f"tick {self.tick}: frequency {hz} sent {v!r}")

    def check_is_up(self, a: LinkAcct, when: str):
        """Link.is_up is 'both end interfaces enabled' (its docstring, and what the property's last clause rests on)."""
        link = a.link
        both = bool(link.endpoint_a.enabled and link.endpoint_b.enabled)
        if bool(link.is_up) != both and "is_up" not in a.reported:
            a.reported.add("is_up")
            self.violate("is_up-disagrees-with-end-interfaces:wired",
                         f"tick {self.tick}: {a.name} is_up={link.is_up} {when} while endpoint_a.enabled="
                         f"{link.endpoint_a.enabled} endpoint_b.enabled={link.endpoint_b.enabled}")

    def end_of_step(self, state_links: Optional[Dict[str, Dict]]):
        """After advance_timestep: loads within bandwidth, describe_state reports the same load."""
        for a in self.links.values():
            load = a.link.current_load
            self.check_is_up(a, "at the end of the step")
            down_now = not (a.link.endpoint_a.enabled and a.link.endpoint_b.enabled)
            if a.down_at_start and down_now and not a.came_up:
                # an end interface was disabled for the whole tick: the link carried nothing and shows no load
                if load != 0.0:
                    self.violate("load-on-down-link:wired",
                                 f"tick {self.tick}: {a.name} had a disabled end interface for the whole tick "
                                 f"(a.enabled={a.link.endpoint_a.enabled}, b.enabled={a.link.endpoint_b.enabled}) and "
                                 f"reports current_load={load!r}")
                if a.carried != 0.0:
                    self.violate("carried-on-down-link:wired",
                                 f"tick {self.tick}: {a.name} had a disabled end interface for the whole tick and carried "
                                 f"{a.carried!r} Mbit")
            if load > a.bw + EPS and "load" not in a.reported:
                self.violate("current_load>bandwidth:wired:end-of-step",
                             f"tick {self.tick}: {a.name} current_load={load!r} bandwidth={a.bw!r} at the end of the step")
            if a.carried > a.bw + EPS and "carried" not in a.reported:
                self.violate("carried>bandwidth:wired:end-of-step",
                             f"tick {self.tick}: {a.name} carried={a.carried!r} bandwidth={a.bw!r} at the end of the step")
            if state_links is not None:
                st = state_links.get(a.name)
                if st is None:
                    self.violate("state-link-missing", f"tick {self.tick}: {a.name} not in describe_state links")
                    continue
                if st["current_load"] != load:
                    self.violate("state-load-mismatch:object",
                                 f"tick {self.tick}: {a.name} describe_state {st['current_load']!r} vs Link {load!r}")
                elif (not a.went_down and a.link.is_up and abs(st["current_load"] - a.counted) > 1e-6
                      and abs(st["current_load"] - a.carried) > 1e-6):
                    # The reported load of a link that stayed up all tick is this tick's traffic.  Two conventions are
                    # admitted: every frame that crossed, or only those the far interface accepted (the code's present one).
                    self.violate("state-load-mismatch:accounting",
                                 f"tick {self.tick}: {a.name} describe_state reports {st['current_load']!r}; frames that crossed "
                                 f"the link this tick sum to {a.carried!r}, those the far interface accepted to {a.counted!r}")
        if self.airspace is not None:
            for hz, cap in self.air_caps.items():
                v = self.airspace.bandwidth_load.get(hz, 0.0)
                if v > cap + EPS and ("load", hz) not in self.air_reported:
                    self.violate("bandwidth_load>capacity:wireless:end-of-step",
                                 f"tick {self.tick}: frequency {hz} load {v!r} capacity {cap!r}")
        if self.refusals_tick or self.half_tight:
            self.nontrivial_ticks += 1

    # ---------------------------------------------------------------------------------------------------------------
    # wired

    def link_can(self, link, frame, result):
        a = self.links.get(id(link))
        if a is None:
            return
        both = bool(link.endpoint_a.enabled and link.endpoint_b.enabled)
        if not both:
            self.down_attempts += 1
        self.check_is_up(a, "at an admission check")
        if result and not both and "admit-down" not in a.reported:
            a.reported.add("admit-down")
            self.violate("frame-admitted-on-down-link:wired",
                         f"tick {self.tick}: {a.name} can_transmit_frame returned True with endpoint_a.enabled="
                         f"{link.endpoint_a.enabled} endpoint_b.enabled={link.endpoint_b.enabled}")
        if result:
            self.adm[(id(link), id(frame))] = (link.current_load, frame.size_Mbits)
        elif both:
            self.refusals += 1
            self.refusals_tick += 1
            if self.send_stack and self.send_stack[-1]["frame"] is frame:
                self.send_stack[-1]["refused"] = True

    def tx_enter(self, link, sender, frame):
        a = self.links.get(id(link))
        rec = {"a": a, "frame": frame, "size": frame.size_Mbits, "adm": self.adm.pop((id(link), id(frame)), None),
               "load_in": link.current_load}
        if self.trace is not None and a is not None:  # calibration: frames in the order they enter a link
            self.trace.append({"medium": "wired", "link": a.name, "size": rec["size"],
                               "adm_size": rec["adm"][1] if rec["adm"] else None, "frame": frame})
        if a is not None and a.inflight:
            a.nested_adm += 1
            self.nested_total += 1
        self.tx_stack.append(rec)
        return rec

    def tx_exit(self, rec, result):
        self.tx_stack.pop()
        a = rec["a"]
        if a is None:
            return
        link = a.link
        load = link.current_load
        if load > a.bw + EPS:
            s = rec["size"]
            adm = rec["adm"]
            if adm is None:
                cause = "no-admission-check"
            elif adm[0] + adm[1] > a.bw + EPS:
                cause = "flat"  # admitted although the link's own load plus the frame did not fit
            elif adm[0] + s > a.bw + EPS:
                cause = "size-grew"  # fitted with the size seen by the admission check, not with the size loaded
            elif load - s > adm[0] + EPS:
                cause = "nested"  # the load grew between this frame's admission and its own accounting
            else:
                cause = "flat"
            if ("load", cause) not in a.reported:
                a.reported.add(("load", cause))
                a.reported.add("load")
                self.violate(f"current_load>bandwidth:wired:{cause}",
                             f"tick {self.tick}: {a.name} current_load={load!r} > bandwidth={a.bw!r} after a frame of {s!r} "
                             f"Mbit (load at admission {adm[0] if adm else None!r}, size at admission "
                             f"{adm[1] if adm else None!r}, nested admissions on this link this tick: {a.nested_adm})")

    def rx_enter(self, iface, frame):
        link = getattr(iface, "_connected_link", None)
        a = self.links.get(id(link)) if link is not None else None
        if a is None:
            # wireless delivery (or an interface outside the scenario's links)
            if self.air_stack and self.air_stack[-1][0] is frame:
                sender = self.air_stack[-1][1]
                if not iface.enabled or not sender.enabled:
                    self.violate("delivery-to-disabled-interface:wireless",
                                 f"tick {self.tick}: wireless frame delivered with receiver.enabled={iface.enabled} "
                                 f"sender.enabled={sender.enabled}")
            return None
        s = frame.size_Mbits
        self.deliveries += 1
        ea, eb = link.endpoint_a, link.endpoint_b
        if not (ea.enabled and eb.enabled):
            self.violate("delivery-on-down-link:wired",
                         f"tick {self.tick}: frame delivered over {a.name} with endpoint_a.enabled={ea.enabled} "
                         f"endpoint_b.enabled={eb.enabled}")
        c_now = link.current_load
        pending = sum(a.inflight)
        zeroed = max(0.0, a.counted - c_now)
        if zeroed > EPS:
            self.reset_seen = True
        t_before = a.carried
        a.carried = t_before + s
        a.inflight.append(s)
        if a.carried > a.peak:
            a.peak = a.carried
        if a.tight and a.carried >= 0.5 * a.bw:
            self.half_tight = True
        if a.carried > a.bw + EPS:
            adm = self.tx_stack[-1]["adm"] if self.tx_stack and self.tx_stack[-1]["frame"] is frame else None
            room = a.bw + EPS - s  # what the other contributions may add up to without overflowing
            if c_now > room:
                # the link's own counter already shows there is no room for this frame
                if adm is not None and adm[0] + adm[1] <= a.bw + EPS and adm[0] + s > a.bw + EPS:
                    cause = "size-grew"  # it fitted with the size the admission check saw, not with the size that crossed
                else:
                    cause = "flat"
            else:
                # what the link's own counter does not contain: frames still being delivered over this link (not yet
                # loaded), frames the far interface turned away (never loaded), load zeroed in the middle of the tick
                cause = None
                for k_, v_ in (("nested", pending), ("rejected", a.rejected), ("reset", zeroed)):
                    if v_ > 0 and c_now + v_ > room:
                        cause = k_  # this contribution alone explains the overflow
                        break
                if cause is None:
                    cause = "combined" if c_now + pending + a.rejected + zeroed > room else "unexplained"
            if ("carried", cause) not in a.reported:
                a.reported.add(("carried", cause))
                a.reported.add("carried")
                self.violate(f"carried>bandwidth:wired:{cause}",
                             f"tick {self.tick}: {a.name} carried {a.carried!r} Mbit > bandwidth {a.bw!r} (frame {s!r}, "
                             f"current_load {c_now!r}, in flight {pending!r}, receiver-rejected {a.rejected!r}, "
                             f"zeroed {zeroed!r})")
        return (a, s)

    def rx_exit(self, tok, result):
        if tok is None:
            return
        a, s = tok
        a.inflight.pop()
        if result:
            a.counted += s
        else:
            a.rejected += s
            self.rejected_total += 1

    def send_enter(self, iface, frame):
        rec = {"frame": frame, "refused": False, "deliveries": self.deliveries, "air_tx": self.air_tx}
        self.send_stack.append(rec)
        return rec

    def send_exit(self, rec, result, iface):
        self.send_stack.pop()
        if rec["refused"]:
            if self.deliveries != rec["deliveries"] or self.air_tx != rec["air_tx"]:
                self.violate("refused-frame-delivered",
                             f"tick {self.tick}: a frame refused for capacity at {type(iface).__name__} was followed by "
                             f"{self.deliveries - rec['deliveries']} deliveries inside the same send_frame call")
            if result:
                self.violate("refused-frame-reported-sent",
                             f"tick {self.tick}: send_frame returned True for a frame refused for capacity")

    def note_link_down(self, link):
        a = self.links.get(id(link))
        if a is not None:
            a.went_down = True

    def note_link_up(self, link):
        a = self.links.get(id(link))
        if a is not None:
            a.came_up = True

    # ---------------------------------------------------------------------------------------------------------------
    # wireless

    def air_can(self, airspace, frame, sender, result):
        hz = sender.frequency.frequency_hz
        if result:
            self.adm[("air", id(frame))] = (airspace.bandwidth_load.get(hz, 0.0), frame.size_Mbits)
        else:
            self.refusals += 1
            self.air_refusals += 1
            self.refusals_tick += 1
            if self.send_stack and self.send_stack[-1]["frame"] is frame:
                self.send_stack[-1]["refused"] = True

    def air_enter(self, airspace, frame, sender):
        hz = sender.frequency.frequency_hz
        s = frame.size_Mbits
        self.air_tx += 1
        adm = self.adm.pop(("air", id(frame)), None)
        before = self.air_sent.get(hz, 0.0)
        self.air_sent[hz] = before + s
        cap = self.air_caps.get(hz)
        self.air_stack.append((frame, sender))
        if self.trace is not None:
            self.trace.append({"medium": "air", "link": hz, "size": s, "adm_size": adm[1] if adm else None, "frame": frame})
        if cap is None:
            return (hz, s, adm)
        if not sender.enabled:
            self.violate("send-from-disabled-interface:wireless", f"tick {self.tick}: frequency {hz}")
        if cap > 0 and self.air_sent[hz] >= 0.5 * cap and cap < 90.0:
            self.half_tight = True
            self.half_tight_air = True
        if self.air_sent[hz] > cap + EPS and ("sent", hz) not in self.air_reported:
            self.air_reported.add(("sent", hz))
            if adm is None:
                cause = "no-admission-check"
            elif adm[0] + adm[1] > cap + EPS:
                cause = "flat"
            elif adm[0] + s > cap + EPS:
                cause = "size-grew"
            elif before > adm[0] + EPS:
                cause = "uncounted"  # the channel's own load is lower than what was sent on it this tick
            else:
                cause = "flat"
            self.violate(f"sent>capacity:wireless:{cause}",
                         f"tick {self.tick}: frequency {hz} sent {self.air_sent[hz]!r} Mbit > capacity {cap!r} (frame {s!r}, "
                         f"load at admission {adm[0] if adm else None!r}, size at admission {adm[1] if adm else None!r})")
        return (hz, s, adm)

    def air_exit(self, airspace, tok):
        self.air_stack.pop()
        hz, s, adm = tok
        cap = self.air_caps.get(hz)
        if cap is None:
            return
        v = airspace.bandwidth_load.get(hz, 0.0)
        if v > cap + EPS and ("load", hz) not in self.air_reported:
            self.air_reported.add(("load", hz))
            if adm is None:
                cause = "no-admission-check"
            elif adm[0] + adm[1] > cap + EPS:
                cause = "flat"
            elif adm[0] + s > cap + EPS:
                cause = "size-grew"
            else:
                cause = "flat"
            self.violate(f"bandwidth_load>capacity:wireless:{cause}",
                         f"tick {self.tick}: frequency {hz} bandwidth_load {v!r} > capacity {cap!r} after a frame of {s!r}")


# ---------------------------------------------------------------------------------------------------------------------
# wrappers


def _all_subclasses(cls):
    out, todo = [], [cls]
    while todo:
        c = todo.pop()
        for s in c.__subclasses__():
            if s not in out:
                out.append(s)
                todo.append(s)
    return out


def _wrap_receive(cls):
    orig = cls.__dict__["receive_frame"]

    def receive_frame(self, frame):
        m = _ACTIVE[0]
        if m is None:
            return orig(self, frame)
        key = (id(self), id(frame))
        if key in m.active_rx:  # super().receive_frame(...) of the same delivery
            return orig(self, frame)
        m.active_rx.add(key)
        try:
            tok = m.rx_enter(self, frame)
            r = orig(self, frame)
        finally:
            m.active_rx.discard(key)
        m.rx_exit(tok, r)
        return r

    receive_frame.__wrapped__ = orig
    setattr(cls, "receive_frame", receive_frame)


def _wrap_send(cls):
    orig = cls.__dict__["send_frame"]

    def send_frame(self, frame):
        m = _ACTIVE[0]
        if m is None:
            return orig(self, frame)
        key = (id(self), id(frame))
        if key in m.active_tx:
            return orig(self, frame)
        m.active_tx.add(key)
        try:
            rec = m.send_enter(self, frame)
            r = orig(self, frame)
        finally:
            m.active_tx.discard(key)
        m.send_exit(rec, r, self)
        return r

    send_frame.__wrapped__ = orig
    setattr(cls, "send_frame", send_frame)


def install():
    """Install the class-level wrappers once per process (idempotent)."""
    if _INSTALLED[0]:
        return
    # make sure every interface class is imported before walking the hierarchy
    import primaite.game.game  # noqa: F401
    import primaite.simulator.network.hardware.nodes.network.firewall  # noqa: F401
    import primaite.simulator.network.hardware.nodes.network.wireless_router  # noqa: F401
    from primaite.simulator.network.airspace import AirSpace
    from primaite.simulator.network.hardware.base import Link, NetworkInterface, WiredNetworkInterface

    for cls in [NetworkInterface] + _all_subclasses(NetworkInterface):
        if "receive_frame" in cls.__dict__:
            _wrap_receive(cls)
        if "send_frame" in cls.__dict__:
            _wrap_send(cls)

    o_can, o_tx, o_down, o_up = Link.can_transmit_frame, Link.transmit_frame, Link.endpoint_down, Link.endpoint_up

    def can_transmit_frame(self, frame):
        r = o_can(self, frame)
        m = _ACTIVE[0]
        if m is not None:
            m.link_can(self, frame, r)
        return r

    def transmit_frame(self, sender_nic, frame):
        m = _ACTIVE[0]
        if m is None:
            return o_tx(self, sender_nic, frame)
        rec = m.tx_enter(self, sender_nic, frame)
        r = o_tx(self, sender_nic, frame)
        m.tx_exit(rec, r)
        return r

    def endpoint_down(self):
        m = _ACTIVE[0]
        if m is not None:
            m.note_link_down(self)
        return o_down(self)

    Link.can_transmit_frame = can_transmit_frame
    Link.transmit_frame = transmit_frame
    def endpoint_up(self):
        m = _ACTIVE[0]
        if m is not None:
            m.note_link_up(self)
        return o_up(self)

    Link.endpoint_down = endpoint_down
    Link.endpoint_up = endpoint_up

    a_can, a_tx = AirSpace.can_transmit_frame, AirSpace.transmit

    def air_can_transmit_frame(self, frame, sender_network_interface):
        r = a_can(self, frame, sender_network_interface)
        m = _ACTIVE[0]
        if m is not None:
            m.air_can(self, frame, sender_network_interface, r)
        return r

    def air_transmit(self, frame, sender_network_interface):
        m = _ACTIVE[0]
        if m is None:
            return a_tx(self, frame, sender_network_interface)
        tok = m.air_enter(self, frame, sender_network_interface)
        r = a_tx(self, frame, sender_network_interface)
        m.air_exit(self, tok)
        return r

    AirSpace.can_transmit_frame = air_can_transmit_frame
    AirSpace.transmit = air_transmit
    _INSTALLED[0] = True
    _ = WiredNetworkInterface
