"""Environment-level driver shared by C01 / C02 / C09 / C11: cases = (scenario, op list) run through PrimaiteGymEnv."""
from __future__ import annotations

import copy
import glob
import os
from typing import Any, Callable, Dict, List, Optional, Tuple

import yaml
from hypothesis import strategies as st

from . import entropy, gen_scenario
from .simutil import IO_OFF, exc_msg, exc_sig

REPO = os.environ.get("VERIF_REPO") or "/repo"


def _resolve(rel: str) -> str:
    """A file of the tree under test; a mutant scratch copy holds only src/, so other files come from /repo."""
    p = os.path.join(REPO, rel)
    return p if os.path.exists(p) else os.path.join("/repo", rel)


# scenario files that cannot be wrapped in PrimaiteGymEnv or are deliberately malformed (reason recorded in evidence)
DENY = {
    "tests/assets/configs/bad_primaite_session.yaml": "deliberately malformed",
    "tests/assets/configs/no_nodes_links_agents_network.yaml": "no agents: PrimaiteGymEnv needs one proxy-agent",
    "tests/assets/configs/extended_config.yaml": "needs test-only plugin classes (extensions) that are not installed",
    "tests/assets/configs/eval_only_primaite_session.yaml": "proxy agent's agent_settings key is null (only a comment "
    "under it): rejected by load-time validation, which is accepted behaviour for a malformed file",
}


def shipped_files() -> List[str]:
    out = []
    for pat in ("src/primaite/config/_package_data/*.yaml", "tests/assets/configs/*.yaml"):
        out.extend(sorted(glob.glob(os.path.join("/repo", pat))))
    rel = [os.path.relpath(p, "/repo") for p in out]
    return [r for r in rel if r not in DENY]


_CFG_CACHE: Dict[str, Any] = {}


def load_shipped(rel: str) -> Dict:
    if rel not in _CFG_CACHE:
        with open(_resolve(rel)) as f:
            _CFG_CACHE[rel] = yaml.safe_load(f)
    cfg = copy.deepcopy(_CFG_CACHE[rel])
    cfg["io_settings"] = dict(IO_OFF)
    return cfg


def has_proxy(cfg: Dict) -> bool:
    """Exactly one proxy agent: PrimaiteGymEnv is the single-agent API (multi-RL-agent files are for the Ray MARL env)."""
    return sum(1 for a in cfg.get("agents", []) if a.get("type") == "proxy-agent") == 1


SCHEDULE_FOLDERS = [
    "src/primaite/config/_package_data/mini_scenario_with_simulation_variation",
    "src/primaite/config/_package_data/scenario_with_placeholders",
    "tests/assets/configs/scenario_with_placeholders",
    "src/primaite/config/_package_data/uc7_multiple_attack_variants",
]


def make_sched_folder(spec: Dict, n_variants: int = 2, vary_obs: bool = False) -> Tuple[str, Dict]:
    """Write a generated scenario as an episode-scheduled FOLDER (base scenario + per-episode variant files that define
    the green agents through a YAML anchor, the placeholder mechanism of the shipped scheduled scenarios)."""
    import tempfile

    cfg, meta = gen_scenario.build(spec)
    greens = [a for a in cfg["agents"] if a.get("team") == "GREEN"]
    others = [a for a in cfg["agents"] if a.get("team") != "GREEN"]
    if not greens:
        greens = [{"ref": "green_idle", "team": "GREEN", "type": "probabilistic-agent",
                   "action_space": {"action_map": {0: {"action": "do-nothing", "options": {}}}},
                   "agent_settings": {"action_probabilities": {0: 1.0}},
                   "reward_function": {"reward_components": [{"type": "dummy"}]}}]
    root = tempfile.mkdtemp(prefix="gensched_", dir=os.environ.get("VERIF_WORK") or os.environ.get("HOME") or "/tmp")
    blue_obs = []
    if vary_obs:
        # every episode variant declares another observation space for the learning agent (through a second anchor):
        # a NON-constant scenario, the declared space has to follow the episode
        others = copy.deepcopy(others)
        blue = next(a for a in others if a.get("type") == "proxy-agent" and "observation_space" in a)
        for k in range(n_variants):
            sk = copy.deepcopy(spec)
            o = sk["obs"]
            o["num_services"] = (o["num_services"] + k) % 4
            o["num_files"] = (o["num_files"] + k) % 3
            o["num_nics"] = (o["num_nics"] + k) % 3
            if k % 2:
                o["include_nmne"] = not o["include_nmne"]
            ck, _ = gen_scenario.build(sk)
            bk = next(a for a in ck["agents"] if a.get("ref") == blue.get("ref"))
            blue_obs.append(bk["observation_space"])
        blue["observation_space"] = "__BLUEOBS__"
    base = dict(cfg, agents=["__GREENS__"] + others)
    text = yaml.safe_dump(base, sort_keys=False).replace("- __GREENS__", "- *greens").replace(
        "observation_space: __BLUEOBS__", "observation_space: *blue_obs")
    with open(os.path.join(root, "base.yaml"), "w") as f:
        f.write(text)
    sched = {}
    for k in range(n_variants):
        gs = copy.deepcopy(greens)
        for g in gs:
            pr = g["agent_settings"]["action_probabilities"]
            if len(pr) >= 2:  # another distribution per episode variant
                keys = sorted(pr)
                w = [1.0 + ((k + i) % 3) for i in range(len(keys))]
                tot = sum(w)
                g["agent_settings"]["action_probabilities"] = {kk: w[i] / tot for i, kk in enumerate(keys)}
        with open(os.path.join(root, f"greens_{k}.yaml"), "w") as f:
            f.write("greens: &greens\n" + "\n".join("  " + l for l in yaml.safe_dump(gs, sort_keys=False).splitlines()) + "\n")
            if vary_obs:
                f.write("blue_obs: &blue_obs\n" + "\n".join("  " + l for l in yaml.safe_dump(blue_obs[k], sort_keys=False).splitlines()) + "\n")
        sched[k] = [f"greens_{k}.yaml"]
    with open(os.path.join(root, "schedule.yaml"), "w") as f:
        yaml.safe_dump({"base_scenario": "base.yaml", "schedule": sched}, f)
    return root, meta


def case_cfg(case: Dict) -> Tuple[Any, Optional[Dict]]:
    if case["src"] == "genfolder":
        return make_sched_folder(case["spec"], case.get("n_variants", 2), bool(case.get("vary_obs")))
    if case["src"] == "folder":
        # an episode-scheduled scenario: PrimaiteGymEnv takes the folder path and composes the YAML per episode
        return _resolve(case["path"]), None
    if case["src"] == "gen":
        cfg, meta = gen_scenario.build(case["spec"])
        if case.get("io"):
            cfg["io_settings"].update(case["io"])
        if case.get("more_actions"):
            # entries a case adds to the defender's action map (appended: the generated indices stay what they were)
            from .c09_gen import apply_extras

            apply_extras(cfg, meta, case["more_actions"])
        return cfg, meta
    cfg = load_shipped(case["path"])
    if case.get("max_len"):
        cfg["game"]["max_episode_length"] = case["max_len"]
    if case.get("tweak"):
        TWEAKS[case["tweak"]](cfg, case)
    if case.get("io"):
        cfg["io_settings"].update(case["io"])  # e.g. the agent-action log (on by default in PrimAITE, off in the harness)
    return cfg, None


def _tweak_early_attack(cfg: Dict, case: Dict) -> None:
    """Scripted attackers start at once and act often, and every success probability of a bot / kill-chain stage is
    strictly between 0 and 1 (case['p']), so that trial OUTCOMES shape the first steps of an episode."""
    p = case.get("p", 0.5)
    for a in cfg.get("agents", []):
        st_ = a.get("agent_settings") or {}
        if a.get("type") in ("red-database-corrupting-agent", "periodic-agent") and a.get("team") == "RED":
            st_.update(start_step=1, frequency=2, variance=0)
            a["agent_settings"] = st_
    for n in cfg["simulation"]["network"].get("nodes", []):
        for ap in n.get("applications", []) or []:
            o = ap.get("options")
            if isinstance(o, dict):
                for k in list(o):
                    if k.endswith("p_of_success"):
                        o[k] = p


def _tweak_shared_first(cfg: Dict, case: Dict) -> None:
    """The learning agent is declared FIRST and shares the rewards of several later-declared scripted agents, which are
    periodic agents drawing from the global RNG whenever they act (order-sensitive): any place where the order of agents
    inside a step follows the reward-sharing graph (sets of names) instead of the declaration order becomes visible."""
    _tweak_early_attack(cfg, case)
    agents = cfg["agents"]
    blue = next(a for a in agents if a.get("type") == "proxy-agent")
    greens = [a for a in agents if a.get("type") == "probabilistic-agent"]
    names = []
    for k, g in enumerate(greens[:3]):
        acts = [v for v in (g.get("action_space") or {}).get("action_map", {}).values()
                if v.get("action") == "node-application-execute"]
        if not acts:
            continue
        o = acts[0]["options"]
        g["type"] = "periodic-agent"
        g["agent_settings"] = {"start_step": 1, "frequency": 2, "variance": 1, "possible_start_nodes": [o["node_name"]],
                               "target_application": o["application_name"]}
        g["action_space"] = {"action_map": {0: {"action": "do-nothing", "options": {}}}}
        names.append(g["ref"])
    comps = blue.setdefault("reward_function", {}).setdefault("reward_components", [])
    for n in names:
        comps.append({"type": "shared-reward", "weight": 1.0, "options": {"agent_name": n}})
    agents.remove(blue)
    agents.insert(0, blue)


def _tweak_tap_variance(cfg: Dict, case: Dict) -> None:
    for a in cfg.get("agents", []):
        if str(a.get("type", "")).startswith("tap-"):
            st_ = a.setdefault("agent_settings", {})
            st_["variance"] = 2
            st_["frequency"] = max(int(st_.get("frequency", 3) or 3), 3)
            st_["start_step"] = max(int(st_.get("start_step", 3) or 3), 3)


TWEAKS = {"early_attack": _tweak_early_attack, "shared_first": _tweak_shared_first, "tap_variance": _tweak_tap_variance}


def resolve_action(op: List, n_actions: int, meta: Optional[Dict]) -> int:
    """['step', k] -> k mod n ; ['cat', category, j] -> j-th action of that category (generated scenarios only)."""
    if op[0] == "step":
        return op[1] % n_actions
    cat, j = op[1], op[2]
    idxs = [i for i, a in enumerate(meta["actions"]) if a["cat"] == cat] if meta else []
    if not idxs:
        return j % n_actions
    return idxs[j % len(idxs)]


TIMED_VERBS = ("-fix", "-restart", "-scan", "-install", "-restore", "-startup", "-shutdown", "-reset", "-remove")


def rep_action(op: List, meta: Optional[Dict]) -> Optional[int]:
    """['rep', j, v, n]: the action repeated on component group j - one that starts something that takes time (fix,
    restart, scan, install, restore, power) when the group has one, so that the repeat meets it in progress."""
    comps = (meta or {}).get("components") or []
    if not comps:
        return None
    grp = comps[op[1] % len(comps)]
    timed = [a for a in grp if meta["actions"][a]["action"].endswith(TIMED_VERBS)]
    pool = timed or grp
    return pool[op[2] % len(pool)]


def expand_ops(ops: List, meta: Optional[Dict]) -> List:
    """Flatten workflow ops into plain ['step', action index] ops (for drivers that do not go through Driver.run)."""
    out = []
    comps = (meta or {}).get("components") or []
    for op in ops:
        if op[0] == "rep":
            a = rep_action(op, meta)
            if a is not None:
                out.extend(["step", a] for _ in range(int(op[3])))
        elif op[0] == "wf":
            if comps:
                grp = comps[op[1] % len(comps)]
                out.extend(["step", grp[v % len(grp)]] for v in op[2])
        elif op[0] == "idle":
            out.extend(["cat", "idle", 0] for _ in range(int(op[1])))
        else:
            out.append(op)
    return out


CATS = ["idle", "power", "scan", "nic", "service", "app", "file", "folder", "user", "session", "nmap", "acl", "port", "missing"]


def ops_strategy(max_ops: int = 30, gen: bool = True, reset_weight: int = 2):
    """Op lists. Weighted by a drawn selector (st.one_of collapses repeated identical branches, so repetition is not a
    weight): about reset_weight/24 of the ops are resets, the rest steps (category-biased in generated scenarios)."""

    def mk(t):
        k, a, cat, j, seed, verbs = t
        if k < reset_weight:
            return ["reset", seed]
        if gen and k >= 22:
            return ["rep", j, verbs[0], 2 + verbs[1] % 2]  # the SAME action two or three times in a row (fix, fix; scan, scan)
        if gen and k >= 19:
            return ["wf", j, verbs]  # a workflow: several verbs in a row on ONE component (install, remove, install ...)
        if gen and k >= 8:
            return ["cat", cat, j]
        return ["step", a]

    op = st.tuples(st.integers(0, 23), st.integers(0, 10**6), st.sampled_from(CATS), st.integers(0, 200),
                   st.sampled_from([None, None, 1, 7]), st.lists(st.integers(0, 30), min_size=2, max_size=5)).map(mk)
    return st.lists(op, min_size=1, max_size=max_ops)


@st.composite
def gen_case_strategy(draw, max_ops: int = 30, **kw):
    spec = draw(gen_scenario.spec_strategy(**kw))
    ops = draw(ops_strategy(max_ops, gen=True))
    case = {"src": "gen", "spec": spec, "ops": ops}
    if draw(st.integers(0, 3)) == 0:
        # PrimAITE's default: every agent's history is written to a JSON file at reset/close (sessions under HOME)
        case["io"] = {"save_agent_actions": True}
    return case


@st.composite
def long_case_strategy(draw, paths: Optional[List[str]] = None, **kw):
    """Cases in which TIME passes: a short prefix of actions (biased to logins/sessions in generated scenarios), then a
    tail of 26-45 consecutive idle steps (inactivity timeouts, scheduled attackers, keep-alives), then a few more ops.
    Generated scenarios get max_episode_length 40-70 so that the tail fits into one episode."""
    idle = st.integers(26, 45).map(lambda k: ["idle", k])
    if paths and draw(st.integers(0, 3)) == 0:
        pre = draw(st.lists(st.integers(0, 10**6).map(lambda a: ["step", a]), min_size=0, max_size=5))
        post = draw(st.lists(st.integers(0, 10**6).map(lambda a: ["step", a]), min_size=0, max_size=3))
        return {"src": "shipped", "path": draw(st.sampled_from(paths)), "max_len": None,
                "ops": pre + [draw(idle)] + post}
    spec = draw(gen_scenario.spec_strategy(**kw))
    spec["max_len"] = draw(st.integers(40, 70))
    sess = st.integers(0, 40).map(lambda j: ["cat", "session", j])
    anyop = st.tuples(st.sampled_from(CATS), st.integers(0, 200)).map(lambda t: ["cat", t[0], t[1]])
    pre = draw(st.lists(st.one_of(sess, anyop), min_size=1, max_size=6))
    post = draw(st.lists(st.one_of(sess, anyop), min_size=0, max_size=4))
    ops = pre + [draw(idle)] + post
    if draw(st.booleans()):
        ops += [["reset", None]] + draw(st.lists(sess, min_size=1, max_size=3)) + [draw(idle)]
    return {"src": "gen", "spec": spec, "ops": ops}


def shipped_case_strategy(paths: List[str], max_ops: int = 30):
    return st.fixed_dictionaries({
        "src": st.just("shipped"),
        "path": st.sampled_from(paths),
        "max_len": st.sampled_from([None, 3, 8, 20]),
        "ops": ops_strategy(max_ops, gen=False),
    })


@st.composite
def folder_case_strategy(draw, small_only: bool = True, max_ops: int = 30):
    """Scheduled scenario folders, driven through MANY resets (past one lap of the schedule) with a few steps between."""
    paths = [p for p in SCHEDULE_FOLDERS if not (small_only and "uc7" in p)]

    def mk(t):
        k, a = t
        return ["reset", None] if k < 5 else ["step", a]

    ops = draw(st.lists(st.tuples(st.integers(0, 9), st.integers(0, 10**6)).map(mk), min_size=6, max_size=max_ops))
    return {"src": "folder", "path": draw(st.sampled_from(paths)), "ops": ops}


class Driver:
    """Runs a case; calls hooks; converts exceptions at the env boundary into (phase, signature, message)."""

    def __init__(self, case: Dict):
        self.case = case
        self.cfg, self.meta = case_cfg(case)
        self.env = None
        self.error: Optional[Tuple[str, str, str]] = None
        self.steps_in_episode = 0
        self.episodes = 0
        self.total_steps = 0

    def build(self) -> bool:
        from .simutil import new_env

        try:
            self.env = new_env(self.cfg)
            return True
        except Exception as e:
            self.error = ("build", exc_sig(e), exc_msg(e))
            return False

    def run(self, after_reset: Callable = None, after_step: Callable = None, before_step: Callable = None,
            initial_reset: bool = True, max_past: int = 3, after_req: Callable = None) -> None:
        env = self.env
        ops = list(self.case["ops"])
        if initial_reset:
            ops = [["reset", None]] + ops
        for i, op in enumerate(ops):
            if op[0] != "reset" and self.steps_in_episode >= env.game.options.max_episode_length + max_past:
                op = ["reset", None]  # at most `max_past` steps beyond truncation, then a new episode
            if op[0] == "reset":
                try:
                    obs, info = env.reset(seed=op[1]) if op[1] is not None else env.reset()
                except Exception as e:
                    self.error = ("reset", exc_sig(e), f"op#{i} {op}: {exc_msg(e)}")
                    return
                self.steps_in_episode = 0
                self.episodes += 1
                if after_reset and after_reset(i, op, obs, info) is False:
                    return
            elif op[0] == "req":
                # ["req", request]: a request handed to the simulation directly, between two steps (what another program
                # or a scripted agent may do; there is no defender action for e.g. deleting a folder)
                try:
                    env.game.simulation.apply_request(list(op[1]), {})
                except Exception as e:
                    self.error = ("request", exc_sig(e), f"op#{i} {op}: {exc_msg(e)}")
                    return
                if after_req and after_req(i, op) is False:
                    return
            elif op[0] in ("wf", "idle", "rep"):
                if op[0] == "rep":
                    a = rep_action(op, self.meta)
                    if a is None:
                        continue
                    acts = [a] * int(op[3])
                elif op[0] == "wf":
                    comps = (self.meta or {}).get("components") or []
                    if not comps:
                        continue
                    grp = comps[op[1] % len(comps)]
                    acts = [grp[v % len(grp)] for v in op[2]]
                else:  # ["idle", k]: k consecutive do-nothing steps (time passes, nothing is touched by the defender)
                    amap = env.agent.action_manager.action_map
                    a0 = next((k for k, v in amap.items() if v[0] == "do-nothing"), 0)
                    acts = [a0] * int(op[1])
                for a in acts:
                    if self.steps_in_episode >= env.game.options.max_episode_length + max_past:
                        break
                    if self._one_step(i, op, ["step", a], a, before_step, after_step) is False:
                        return
            else:
                a = resolve_action(op, env.action_space.n, self.meta)
                if self._one_step(i, op, op, a, before_step, after_step) is False:
                    return

    def _one_step(self, i, op, sub, a, before_step, after_step):
        env = self.env
        if before_step and before_step(i, sub, a) is False:
            return False
        try:
            out = env.step(a)
        except Exception as e:
            act = env.agent.action_manager.action_map[a][0]
            self.error = ("step", exc_sig(e), f"op#{i} {op} action#{a} {act}: {exc_msg(e)}")
            self.error_action = act
            return False
        self.steps_in_episode += 1
        self.total_steps += 1
        if after_step and after_step(i, sub, a, out) is False:
            return False
        return True
