"""Generated scenario families (DESIGN §1.3).

A *spec* is a small dict of primitives (what Hypothesis generates and what replay files store);
``build(spec)`` is a pure function spec -> (scenario dict as the YAML loader would give it, meta).
Families: LAN (one switch), ROUTED (1-2 routers, a LAN each, static or default routes), DMZ (firewall with
external / internal / dmz zones).  Keys follow the shipped scenario files.
"""
from __future__ import annotations

from typing import Any, Dict, List, Tuple

from hypothesis import strategies as st

from .simutil import ALL_PORTS, ALL_PROTOCOLS, IO_OFF

SERVER_SW = ["db", "web", "dns", "ntp", "ftp"]  # server-side software tokens
CLIENT_SW = ["dbc", "browser", "dmbot", "ransom", "dos", "c2b", "c2s", "ftpc", "ntpc", "dnsc"]

SERVICE_NAME = {"db": "database-service", "web": "web-server", "dns": "dns-server", "ntp": "ntp-server",
                "ftp": "ftp-server", "ftpc": "ftp-client", "ntpc": "ntp-client", "dnsc": "dns-client"}
APP_NAME = {"dbc": "database-client", "browser": "web-browser", "dmbot": "data-manipulation-bot",
            "ransom": "ransomware-script", "dos": "dos-bot", "c2b": "c2-beacon", "c2s": "c2-server"}


# ---------------------------------------------------------------------------------------------------------------------
# spec strategy


@st.composite
def host_spec(draw, server: bool):
    sw = draw(st.lists(st.sampled_from(SERVER_SW if server else CLIENT_SW), max_size=4, unique=True))
    return {
        "kind": "server" if server else "computer",
        "sw": sorted(sw),
        "up": draw(st.sampled_from([0, 0, 1, 2, 3])),
        "down": draw(st.sampled_from([0, 0, 1, 2, 3])),
        "off": draw(st.sampled_from([False, False, False, False, True])),
        "users": draw(st.integers(0, 2)),
        "files": draw(st.integers(0, 2)),
    }


@st.composite
def spec_strategy(draw, families=("LAN", "ROUTED", "DMZ"), allow_off=True, max_hosts=4):
    fam = draw(st.sampled_from(list(families)))
    n_zones = {"LAN": 1, "ROUTED": draw(st.integers(1, 2)) if fam == "ROUTED" else 1, "DMZ": 3}[fam]
    zones = []
    for z in range(n_zones):
        n = draw(st.integers(1 if n_zones > 1 else 2, max(2, max_hosts - (n_zones - 1))))
        hosts = [draw(host_spec(server=(z == 0 and i == 0) or draw(st.booleans()))) for i in range(n)]
        if not allow_off:
            for h in hosts:
                h["off"] = False
        zones.append(hosts)
    spec = {
        "family": fam,
        "zones": zones,
        "routes": draw(st.sampled_from(["static", "default"])),
        "mask": draw(st.sampled_from([24, 24, 28])),
        "bw": draw(st.sampled_from([None, None, 1000, 0.05])),
        "net_dev_up": draw(st.sampled_from([0, 0, 2])),
        "nmne": draw(st.sampled_from([None, True, False])),
        "max_len": draw(st.integers(3, 30)),
        "seed": draw(st.integers(0, 50)),
        "obs": {
            "num_services": draw(st.integers(0, 3)),
            "num_applications": draw(st.integers(0, 3)),
            "num_folders": draw(st.integers(0, 2)),
            "num_files": draw(st.integers(0, 2)),
            "num_nics": draw(st.integers(0, 2)),
            "include_nmne": draw(st.booleans()),
            "include_num_access": draw(st.booleans()),
            "include_users": draw(st.booleans()),
            "fs_scan": draw(st.booleans()),
            "svc_scan": draw(st.booleans()),
            "app_scan": draw(st.booleans()),
            "traffic": draw(st.booleans()),
            "num_rules": draw(st.integers(1, 6)),
            "num_ports": draw(st.integers(0, 3)),
            "links": draw(st.booleans()),
            "missing": draw(st.booleans()),
            "flatten": draw(st.booleans()),
            "masking": draw(st.booleans()),
            "ip_list_full": draw(st.booleans()),
        },
        "agents": {
            "green": draw(st.integers(0, 2)),
            "red": draw(st.sampled_from(["none", "none", "periodic", "dm"])),
            "red_start": draw(st.integers(0, 4)),
            "red_freq": draw(st.integers(1, 4)),
            "extra_blue": draw(st.booleans()),
            "blue_last": draw(st.booleans()),
            "thresholds": draw(st.booleans()),
        },
        "acl_deny": draw(st.booleans()),
        "amap_order": draw(st.sampled_from([0, 0, 1, 7, 12345])),
        # which network device (index into routers+firewalls+switches), if any, is DECLARED operating_state OFF
        "infra_off": draw(st.sampled_from([None, None, None, None, None, None, 0, 1, 2])),
        # shape of the browsers' target_url: plain name, explicit port, upper-case host, address literal, unknown name
        "url": draw(st.sampled_from(["plain", "plain", "port80", "port8080", "upper", "ip", "unknown"])),
        "defaults": draw(st.sampled_from([None, None, {"folder_scan_duration": 1, "folder_restore_duration": 1,
                                                        "node_scan_duration": 2, "service_fix_duration": 1,
                                                        "service_restart_duration": 1}])),
    }
    if not allow_off:
        spec["infra_off"] = None
    return spec


# ---------------------------------------------------------------------------------------------------------------------
# build


def _mask_str(bits: int) -> str:
    m = (0xFFFFFFFF << (32 - bits)) & 0xFFFFFFFF
    return ".".join(str((m >> s) & 0xFF) for s in (24, 16, 8, 0))


def _permit_all_acl() -> Dict[int, Dict]:
    return {20: {"action": "PERMIT", "protocol": "ICMP"}, 21: {"action": "PERMIT", "protocol": "TCP"},
            22: {"action": "PERMIT", "protocol": "UDP"}}


def build(spec: Dict) -> Tuple[Dict, Dict]:
    fam = spec["family"]
    zones = spec["zones"]
    mask_bits = spec.get("mask", 24)
    mask = _mask_str(mask_bits)
    nodes: List[Dict] = []
    links: List[Dict] = []
    hosts_meta: List[Dict] = []
    nd = spec.get("net_dev_up", 0)

    def link(a, ap, b, bp):
        d = {"endpoint_a_hostname": a, "endpoint_a_port": ap, "endpoint_b_hostname": b, "endpoint_b_port": bp}
        if spec.get("bw") is not None:
            d["bandwidth"] = spec["bw"]
        links.append(d)

    # addressing plan: zone z -> 192.168.(10+z).0/mask, gateway .1, hosts .2.. (all inside a /28 too)
    zone_net = [f"192.168.{10 + z}" for z in range(len(zones))]
    first_server_ip = None
    backup_ip = None
    all_host_ips = []
    for z, hosts in enumerate(zones):
        for i, h in enumerate(hosts):
            ip = f"{zone_net[z]}.{2 + i}"
            all_host_ips.append(ip)
            if "db" in h["sw"] and first_server_ip is None:
                first_server_ip = ip
            if "ftp" in h["sw"] and backup_ip is None:
                backup_ip = ip
    dns_ip = None
    web_ip = None
    for z, hosts in enumerate(zones):
        for i, h in enumerate(hosts):
            ip = f"{zone_net[z]}.{2 + i}"
            if "dns" in h["sw"] and dns_ip is None:
                dns_ip = ip
            if "web" in h["sw"] and web_ip is None:
                web_ip = ip
    ntp_ip = None
    c2s_ip = None
    for z, hosts in enumerate(zones):
        for i, h in enumerate(hosts):
            ip = f"{zone_net[z]}.{2 + i}"
            if "ntp" in h["sw"] and ntp_ip is None:
                ntp_ip = ip
            if "c2s" in h["sw"] and c2s_ip is None:
                c2s_ip = ip
    target_db = first_server_ip or all_host_ips[0]

    # network devices
    if fam == "LAN":
        nodes.append({"type": "switch", "hostname": "sw0", "num_ports": 8, "start_up_duration": nd, "shut_down_duration": nd})
    elif fam == "ROUTED":
        k = len(zones)
        for r in range(k):
            ports = {1: {"ip_address": f"{zone_net[r]}.1", "subnet_mask": mask}}
            if k == 2:
                ports[2] = {"ip_address": f"10.0.0.{1 + r}", "subnet_mask": "255.255.255.252"}
            rc = {"type": "router", "hostname": f"r{r}", "num_ports": 3, "ports": ports, "acl": _permit_all_acl(),
                  "start_up_duration": nd, "shut_down_duration": nd}
            if spec.get("acl_deny") and r == 0:
                rc["acl"][5] = {"action": "DENY", "protocol": "TCP", "src_ip": all_host_ips[-1], "dst_ip": all_host_ips[0],
                                "dst_port": "POSTGRES_SERVER", "src_port": "POSTGRES_SERVER"}
            if k == 2:
                other = 1 - r
                if spec["routes"] == "static":
                    rc["routes"] = [{"address": f"{zone_net[other]}.0", "subnet_mask": mask,
                                     "next_hop_ip_address": f"10.0.0.{1 + other}", "metric": 0}]
                else:
                    rc["default_route"] = {"next_hop_ip_address": f"10.0.0.{1 + other}"}
            nodes.append(rc)
            nodes.append({"type": "switch", "hostname": f"sw{r}", "num_ports": 8, "start_up_duration": nd,
                          "shut_down_duration": nd})
            link(f"r{r}", 1, f"sw{r}", 8)
        if k == 2:
            link("r0", 2, "r1", 2)
    else:  # DMZ: zone 0 internal, 1 dmz, 2 external
        acl = {}
        for name in ("internal_inbound_acl", "internal_outbound_acl", "dmz_inbound_acl", "dmz_outbound_acl",
                     "external_inbound_acl", "external_outbound_acl"):
            acl[name] = _permit_all_acl()
        if spec.get("acl_deny"):
            acl["external_inbound_acl"][3] = {"action": "DENY", "protocol": "TCP", "dst_port": "POSTGRES_SERVER"}
        nodes.append({"type": "firewall", "hostname": "fw", "start_up_duration": nd, "shut_down_duration": nd,
                      "ports": {"internal_port": {"ip_address": f"{zone_net[0]}.1", "subnet_mask": mask},
                                "dmz_port": {"ip_address": f"{zone_net[1]}.1", "subnet_mask": mask},
                                "external_port": {"ip_address": f"{zone_net[2]}.1", "subnet_mask": mask}},
                      "acl": acl})
        fwport = {0: 2, 1: 3, 2: 1}  # external=1, internal=2, dmz=3
        for z in range(3):
            nodes.append({"type": "switch", "hostname": f"sw{z}", "num_ports": 8, "start_up_duration": nd,
                          "shut_down_duration": nd})
            link("fw", fwport[z], f"sw{z}", 8)

    if spec.get("infra_off") is not None:
        devs = [n for n in nodes if n["type"] in ("router", "firewall", "switch")]
        devs[spec["infra_off"] % len(devs)]["operating_state"] = "OFF"

    # hosts
    for z, hosts in enumerate(zones):
        for i, h in enumerate(hosts):
            name = f"z{z}h{i}"
            ip = f"{zone_net[z]}.{2 + i}"
            n = {"type": h["kind"], "hostname": name, "ip_address": ip, "subnet_mask": mask,
                 "start_up_duration": h["up"], "shut_down_duration": h["down"]}
            if fam != "LAN":
                n["default_gateway"] = f"{zone_net[z]}.1"
            if dns_ip:
                n["dns_server"] = dns_ip
            if h.get("off"):
                # True = declared OFF; a string names another declared state that is not ON (BOOTING, SHUTTING_DOWN)
                n["operating_state"] = h["off"] if isinstance(h["off"], str) else "OFF"
            services, apps = [], []
            for t in h["sw"]:
                if t == "db":
                    o = {"db_password": "pw"} if (spec["seed"] % 2) else {}
                    if backup_ip:
                        o["backup_server_ip"] = backup_ip
                    services.append({"type": "database-service", "options": o} if o else {"type": "database-service"})
                elif t == "web":
                    services.append({"type": "web-server"})
                elif t == "dns":
                    services.append({"type": "dns-server", "options": {"domain_mapping": {"arcd.com": web_ip or ip}}})
                elif t == "ntp":
                    services.append({"type": "ntp-server"})
                elif t == "ftp":
                    services.append({"type": "ftp-server"})
                elif t == "ftpc":
                    services.append({"type": "ftp-client"})
                elif t == "dnsc":
                    services.append({"type": "dns-client"})
                elif t == "ntpc":
                    services.append({"type": "ntp-client", "options": {"ntp_server_ip": ntp_ip or all_host_ips[0]}})
                elif t == "dbc":
                    o = {"db_server_ip": target_db}
                    if spec["seed"] % 2:
                        o["server_password"] = "pw"
                    apps.append({"type": "database-client", "options": o})
                elif t == "browser":
                    url = {"plain": "http://arcd.com/users/", "port80": "http://arcd.com:80/users/",
                           "port8080": "http://arcd.com:8080/users/", "upper": "http://ARCD.com/users/",
                           "ip": f"http://{web_ip or all_host_ips[0]}/users/",
                           "unknown": "http://nosuch.example/"}[spec.get("url", "plain")]
                    apps.append({"type": "web-browser", "options": {"target_url": url}})
                elif t == "dmbot":
                    apps.append({"type": "data-manipulation-bot",
                                 "options": {"port_scan_p_of_success": 0.8, "data_manipulation_p_of_success": 0.8,
                                             "payload": "DELETE", "server_ip": target_db}})
                elif t == "ransom":
                    apps.append({"type": "ransomware-script", "options": {"server_ip": target_db}})
                elif t == "dos":
                    o = {"target_ip_address": target_db, "payload": "SPOOF DATA", "port_scan_p_of_success": 0.8}
                    if spec.get("dos_opts"):
                        # C03 'multibot' cases: several fully configured repeating bots, each with its own trial odds
                        o.update(spec["dos_opts"][len(hosts_meta) % len(spec["dos_opts"])])
                    apps.append({"type": "dos-bot", "options": o})
                elif t == "c2b":
                    apps.append({"type": "c2-beacon", "options": {"c2_server_ip_address": c2s_ip or all_host_ips[0],
                                                                  "keep_alive_frequency": 3}})
                elif t == "c2s":
                    apps.append({"type": "c2-server"})
            if "db" in h["sw"] and not any(s["type"] == "ftp-client" for s in services):
                services.append({"type": "ftp-client"})
            if services:
                n["services"] = services
            if apps:
                n["applications"] = apps
            if h["users"]:
                n["users"] = [{"username": f"u{j}", "password": f"p{j}", "is_admin": j == 0} for j in range(h["users"])]
            if h["files"]:
                n["folders"] = [{"folder_name": "docs", "files": [{"file_name": f"f{j}.txt"} for j in range(h["files"])]}]
            nodes.append(n)
            sw = f"sw{z if fam != 'LAN' else 0}"
            port = i + 1 if fam != "LAN" else len(hosts_meta) + 1
            link(sw, port, name, 1)
            hosts_meta.append({"name": name, "ip": ip, "zone": z, "kind": h["kind"],
                               "services": [s["type"] for s in services], "apps": [a["type"] for a in apps],
                               "files": [f"f{j}.txt" for j in range(h["files"])], "users": h["users"],
                               "off": bool(h.get("off"))})

    routers = [n["hostname"] for n in nodes if n["type"] == "router"]
    firewalls = [n["hostname"] for n in nodes if n["type"] == "firewall"]
    switches = [n["hostname"] for n in nodes if n["type"] == "switch"]

    actions = build_actions(hosts_meta, routers, firewalls, switches, spec)
    obs = build_obs(hosts_meta, routers, firewalls, links, spec, all_host_ips)
    agents = build_agents(spec, hosts_meta, actions, obs)

    game = {"max_episode_length": spec["max_len"], "ports": list(ALL_PORTS), "protocols": list(ALL_PROTOCOLS),
            "seed": spec["seed"]}
    if spec["agents"].get("thresholds"):
        game["thresholds"] = {"nmne": {"high": 3, "medium": 2, "low": 1}, "file_access": {"high": 3, "medium": 2, "low": 1},
                              "app_executions": {"high": 3, "medium": 2, "low": 1}}
    net: Dict[str, Any] = {"nodes": nodes, "links": links}
    if spec.get("nmne") is not None:
        net["nmne_config"] = {"capture_nmne": bool(spec["nmne"]), "nmne_capture_keywords": ["DELETE", "ENCRYPT"]}
    cfg = {"metadata": {"version": 3.0}, "io_settings": dict(IO_OFF), "game": game, "agents": agents,
           "simulation": {"network": net}}
    if spec.get("defaults"):
        cfg["defaults"] = dict(spec["defaults"])
    # group the action-map entries by the component they address, for "workflow" ops (several verbs on ONE component)
    groups: Dict[str, List[int]] = {}
    for i, a in enumerate(actions):
        o = a["options"]
        node = o.get("node_name") or o.get("target_router") or o.get("target_nodename") or o.get("target_firewall_nodename") or o.get("source_node")
        comp = o.get("service_name") or o.get("application_name") or (o.get("folder_name", "") + "/" + o.get("file_name", "") if "folder_name" in o else None)
        if comp is None:
            comp = "nic" if "nic_num" in o or "port_num" in o else ("acl" if "position" in o else ("user" if "username" in o else "node"))
        if node is not None:
            groups.setdefault(f"{node}|{comp}", []).append(i)
    meta = {"hosts": hosts_meta, "routers": routers, "firewalls": firewalls, "switches": switches,
            "actions": actions, "links": links, "components": [g for g in groups.values() if len(g) >= 2]}
    return cfg, meta


def build_actions(hosts, routers, firewalls, switches, spec) -> List[Dict]:
    """Action templates x live inventory, plus entries aimed at missing components. Each item: action, options, cat."""
    A: List[Dict] = [{"action": "do-nothing", "options": {}, "cat": "idle"}]

    def add(action, cat, **options):
        A.append({"action": action, "options": options, "cat": cat})

    for h in hosts:
        n = h["name"]
        for a in ("node-shutdown", "node-startup", "node-reset"):
            add(a, "power", node_name=n)
        add("node-os-scan", "scan", node_name=n)
        add("host-nic-disable", "nic", node_name=n, nic_num=1)
        add("host-nic-enable", "nic", node_name=n, nic_num=1)
        for s in h["services"][:2]:
            for v in ("stop", "start", "pause", "resume", "restart", "disable", "enable", "scan", "fix"):
                add(f"node-service-{v}", "service", node_name=n, service_name=s)
        for ap in h["apps"][:2]:
            for v in ("execute", "scan", "close", "fix", "remove", "install"):
                add(f"node-application-{v}", "app", node_name=n, application_name=ap)
        fo, fi = "docs", (h["files"][0] if h["files"] else "new.txt")
        for v in ("create", "delete", "scan", "repair", "restore", "corrupt", "access", "checkhash"):
            add(f"node-file-{v}", "file", node_name=n, folder_name=fo, file_name=fi)
        for v in ("create", "scan", "repair", "restore", "checkhash"):
            add(f"node-folder-{v}", "folder", node_name=n, folder_name=fo)
        if h["users"]:
            add("node-account-change-password", "user", node_name=n, username="u0", current_password="p0",
                new_password="q0")
            add("node-account-disable-user", "user", node_name=n, username="u0")
        add("node-account-add-user", "user", node_name=n, username="nu", password="np", is_admin=False)
    if len(hosts) >= 2:
        a, b = hosts[0], hosts[-1]
        add("node-session-remote-login", "session", node_name=a["name"], remote_ip=b["ip"], username="admin",
            password="admin")
        add("node-session-remote-login", "session", node_name=a["name"], remote_ip=b["ip"], username="admin",
            password="wrong")
        add("node-send-remote-command", "session", node_name=a["name"], remote_ip=b["ip"],
            command=["file_system", "create", "folder", "via_remote"])
        add("node-session-remote-logoff", "session", node_name=a["name"], remote_ip=b["ip"])
        add("node-send-local-command", "session", node_name=a["name"], username="admin", password="admin",
            command=["file_system", "create", "folder", "via_local"])
        add("node-nmap-ping-scan", "nmap", source_node=a["name"], target_ip_address=b["ip"])
        add("node-nmap-port-scan", "nmap", source_node=a["name"], target_ip_address=b["ip"])
    for r in routers:
        add("router-acl-add-rule", "acl", target_router=r, position=1, permission="DENY", src_ip=hosts[0]["ip"],
            src_wildcard="NONE", src_port="ALL", dst_ip="ALL", dst_wildcard="NONE", dst_port="ALL", protocol_name="ALL")
        add("router-acl-add-rule", "acl", target_router=r, position=2, permission="PERMIT", src_ip="ALL",
            src_wildcard="NONE", src_port="HTTP", dst_ip=hosts[-1]["ip"], dst_wildcard="0.0.0.255", dst_port="HTTP",
            protocol_name="tcp")
        # rules in the first (observed) slots with every protocol and with listed / unlisted ports and addresses
        add("router-acl-add-rule", "acl", target_router=r, position=0, permission="DENY", src_ip="ALL",
            src_wildcard="NONE", src_port="DNS", dst_ip="ALL", dst_wildcard="NONE", dst_port="DNS", protocol_name="udp")
        add("router-acl-add-rule", "acl", target_router=r, position=3, permission="PERMIT", src_ip=hosts[-1]["ip"],
            src_wildcard="0.0.0.1", src_port="ALL", dst_ip="8.8.8.8", dst_wildcard="NONE", dst_port="ALL",
            protocol_name="icmp")
        add("router-acl-add-rule", "acl", target_router=r, position=1, permission="PERMIT", src_ip="ALL",
            src_wildcard="NONE", src_port="FTP", dst_ip="ALL", dst_wildcard="NONE", dst_port="POSTGRES_SERVER",
            protocol_name="tcp")
        add("router-acl-remove-rule", "acl", target_router=r, position=0)
        add("router-acl-remove-rule", "acl", target_router=r, position=1)
        add("router-acl-remove-rule", "acl", target_router=r, position=21)
        add("network-port-disable", "port", target_nodename=r, port_num=1)
        add("network-port-enable", "port", target_nodename=r, port_num=1)
    for f in firewalls:
        for pn, di in (("internal", "inbound"), ("dmz", "outbound"), ("external", "inbound")):
            add("firewall-acl-add-rule", "acl", target_firewall_nodename=f, firewall_port_name=pn,
                firewall_port_direction=di, position=1, permission="DENY", src_ip="ALL", src_wildcard="NONE",
                src_port="ALL", dst_ip=hosts[0]["ip"], dst_wildcard="NONE", dst_port="ALL", protocol_name="ALL")
            add("firewall-acl-remove-rule", "acl", target_firewall_nodename=f, firewall_port_name=pn,
                firewall_port_direction=di, position=1)
        add("network-port-disable", "port", target_nodename=f, port_num=2)
        add("network-port-enable", "port", target_nodename=f, port_num=2)
    # aimed at missing components
    h0 = hosts[0]["name"]
    add("node-shutdown", "missing", node_name="ghost")
    add("node-service-stop", "missing", node_name=h0, service_name="nope-service")
    add("node-application-execute", "missing", node_name=h0, application_name="nope-app")
    add("host-nic-disable", "missing", node_name=h0, nic_num=7)
    add("node-file-scan", "missing", node_name=h0, folder_name="nofolder", file_name="nofile")
    add("node-folder-scan", "missing", node_name=h0, folder_name="nofolder")
    # the uninstall request looks a name up among ALL installed software, so it also removes services:
    # afterwards every node-service-* entry for that name addresses a component that no longer exists
    for svc in (hosts[0]["services"][:1] + ["dns-client", "ftp-client"]):
        add("node-application-remove", "app", node_name=h0, application_name=svc)
    for v in ("stop", "start", "scan", "fix", "disable", "enable"):
        add(f"node-service-{v}", "service", node_name=h0, service_name="dns-client")
        add(f"node-service-{v}", "service", node_name=h0, service_name="ftp-client")
    add("node-application-install", "app", node_name=h0, application_name="dos-bot")
    add("node-application-remove", "app", node_name=h0, application_name="dos-bot")
    for v in ("execute", "close", "scan", "fix"):
        add(f"node-application-{v}", "app", node_name=h0, application_name="dos-bot")
    add("node-application-install", "app", node_name=h0, application_name="ransomware-script")
    for v in ("execute", "close", "scan"):
        add(f"node-application-{v}", "app", node_name=h0, application_name="ransomware-script")
    # power actions on network devices (appended last so that the indices of the entries above stay what they were)
    for dev in list(routers) + list(firewalls) + list(switches)[:1]:
        for a in ("node-startup", "node-shutdown"):
            add(a, "power", node_name=dev)
    return A


def build_obs(hosts, routers, firewalls, links, spec, all_ips) -> Dict:
    o = spec["obs"]
    comps = []
    hlist = []
    for h in hosts:
        hc: Dict[str, Any] = {"hostname": h["name"]}
        svcs = [{"service_name": s} for s in h["services"]]
        apps = [{"application_name": a} for a in h["apps"]]
        if o["missing"]:
            svcs.append({"service_name": "nope-service"})
            apps.append({"application_name": "dos-bot"})
        if svcs and o["num_services"]:
            hc["services"] = svcs[: o["num_services"]]
        if apps and o["num_applications"]:
            hc["applications"] = apps[: o["num_applications"]]
        if o["num_folders"]:
            files = [{"file_name": f} for f in (h["files"] or ["new.txt"])][: max(o["num_files"], 0)]
            fc: Dict[str, Any] = {"folder_name": "docs"}
            if files:
                fc["files"] = files
            hc["folders"] = [fc]
        hlist.append(hc)
    if o["missing"]:
        hlist.append({"hostname": "ghost"})
    opts: Dict[str, Any] = {
        "hosts": hlist,
        "num_services": o["num_services"], "num_applications": o["num_applications"], "num_folders": o["num_folders"],
        "num_files": o["num_files"], "num_nics": o["num_nics"], "include_nmne": o["include_nmne"],
        "include_num_access": o["include_num_access"], "include_users": o["include_users"],
        "file_system_requires_scan": o["fs_scan"], "services_requires_scan": o["svc_scan"],
        "applications_requires_scan": o["app_scan"],
    }
    if o["traffic"]:
        opts["monitored_traffic"] = {"icmp": ["NONE"], "tcp": ["HTTP", "POSTGRES_SERVER"], "udp": ["DNS"]}
    if routers or firewalls:
        ips = list(all_ips) if o["ip_list_full"] else list(all_ips[:1])
        opts.update({"ip_list": ips, "wildcard_list": ["0.0.0.1", "0.0.0.255"], "port_list": ["HTTP", "POSTGRES_SERVER"],
                     "protocol_list": ["ICMP", "TCP", "UDP"], "num_rules": o["num_rules"], "num_ports": o["num_ports"]})
        if routers:
            opts["routers"] = [{"hostname": r} for r in routers]
        if firewalls:
            opts["firewalls"] = [{"hostname": f} for f in firewalls]
    comps.append({"type": "nodes", "label": "NODES", "options": opts})
    if o["links"]:
        refs = []
        for l in links:
            refs.append(f"{l['endpoint_a_hostname']}:eth-{l['endpoint_a_port']}<->{l['endpoint_b_hostname']}:eth-{l['endpoint_b_port']}")
        comps.append({"type": "links", "label": "LINKS", "options": {"link_references": refs}})
    comps.append({"type": "none", "label": "ICS", "options": {}})
    return {"type": "custom", "options": {"components": comps}}


def build_agents(spec, hosts, actions, obs) -> List[Dict]:
    ag = spec["agents"]
    agents: List[Dict] = []
    amap = {i: {"action": a["action"], "options": a["options"]} for i, a in enumerate(actions)}
    order = spec.get("amap_order")
    if order:
        # the same mapping written with its keys in another order (a mapping's key order carries no meaning)
        keys = list(amap)
        x = int(order)
        for i in range(len(keys) - 1, 0, -1):
            x = (x * 1103515245 + 12345) & 0x7FFFFFFF
            j = x % (i + 1)
            keys[i], keys[j] = keys[j], keys[i]
        amap = {k: amap[k] for k in keys}
    blue = {
        "ref": "defender", "team": "BLUE", "type": "proxy-agent",
        "observation_space": obs,
        "action_space": {"action_map": amap},
        "reward_function": {"reward_components": [
            {"type": "database-file-integrity", "weight": 0.5,
             "options": {"node_hostname": hosts[0]["name"], "folder_name": "database", "file_name": "database.db"}},
            {"type": "action-penalty", "weight": 0.1, "options": {"action_penalty": -0.25, "do_nothing_penalty": 0.1}},
        ]},
        "agent_settings": {"flatten_obs": spec["obs"]["flatten"], "action_masking": spec["obs"]["masking"]},
    }
    agents.append(blue)
    clients = [h for h in hosts if h["apps"]]
    for g in range(ag["green"]):
        if not clients:
            break
        h = clients[g % len(clients)]
        app = h["apps"][g % len(h["apps"])]
        agents.append({
            "ref": f"green{g}", "team": "GREEN", "type": "probabilistic-agent",
            "action_space": {"action_map": {
                0: {"action": "do-nothing", "options": {}},
                1: {"action": "node-application-execute", "options": {"node_name": h["name"], "application_name": app}},
                2: {"action": "node-file-create", "options": {"node_name": h["name"], "folder_name": "docs",
                                                              "file_name": f"g{g}.txt"}},
            }},
            "agent_settings": {"action_probabilities": {0: 0.3, 1: 0.5, 2: 0.2}},
            "reward_function": {"reward_components": [{"type": "dummy"}]},
        })
    reds = [h for h in hosts if "data-manipulation-bot" in h["apps"]]
    if ag["red"] != "none" and reds:
        t = "periodic-agent" if ag["red"] == "periodic" else "red-database-corrupting-agent"
        st_ = {"start_step": ag["red_start"], "frequency": ag["red_freq"], "variance": 0,
               "possible_start_nodes": [h["name"] for h in reds]}
        if t == "periodic-agent":
            st_["target_application"] = "data-manipulation-bot"
        agents.append({"ref": "attacker", "team": "RED", "type": t, "agent_settings": st_,
                       "action_space": {"action_map": {0: {"action": "do-nothing", "options": {}}}},
                       "reward_function": {"reward_components": [{"type": "dummy"}]}})
    if ag.get("blue_last"):
        # the shipped scenarios declare the defender LAST, so green and red act before blue within a step
        agents = agents[1:] + agents[:1]
    return agents
