"""C08 helpers: JSON-safe topology specs -> scenario dicts, and the independent reference (LPM + reachability walk).

Nothing here imports primaite.  The reference is computed from the *spec* (the scenario description) plus two
dynamic flags per element read by the caller at the moment of an operation (node is ON, interface is enabled).

Spec format (all JSON-safe; port numbers are ints inside lists, never dict keys):

    {"family": "...", "dur": 1,
     (any node may carry "off": true = declared `operating_state: OFF`; a host may carry "nic2": [ip, plen] = a second
      NIC declared under `network_interfaces: {2: ...}`, port 2)
     "nodes": [{"k": "switch", "name": "s0"},
               {"k": "host", "name": "h0", "ip": "10.1.1.10", "plen": 24, "gw": "10.1.1.1"|None, "dns": bool},
               {"k": "router"|"firewall"|"wrouter", "name": "r0", "ifs": [[port, ip, plen], ...],
                "routes": [[address, plen, next_hop, metric], ...], "default": next_hop|None}],
     "links": [[node_a, port_a, node_b, port_b], ...]}

Firewall ports: 1 external, 2 internal, 3 dmz.  Wireless router ports: 1 wireless access point, 2 wired.
"""
from __future__ import annotations

from typing import Callable, Dict, List, Optional, Set, Tuple

from .simutil import base_cfg

# ---------------------------------------------------------------------------------------------------------------------
# integer IPv4 arithmetic (deliberately not the ipaddress module the code under test uses)


def ip2int(s: str) -> int:
    a, b, c, d = (int(x) for x in s.split("."))
    return (a << 24) | (b << 16) | (c << 8) | d


def int2ip(n: int) -> str:
    return f"{(n >> 24) & 255}.{(n >> 16) & 255}.{(n >> 8) & 255}.{n & 255}"


def plen2mask(plen: int) -> int:
    return 0 if plen == 0 else (0xFFFFFFFF << (32 - plen)) & 0xFFFFFFFF


def mask_str(plen: int) -> str:
    return int2ip(plen2mask(plen))


def in_net(ip: int, addr: int, plen: int) -> bool:
    m = plen2mask(plen)
    return (ip & m) == (addr & m)


def ref_lpm(routes: List[Tuple[int, int, float]], dst: int) -> List[int]:
    """Indices of the routes a correct longest-prefix / lowest-metric selection may return (all remaining ties).

    routes: (address_int, prefix_len, metric).  Empty list = no specific route contains dst (default route is the
    last resort, decided by the caller).
    """
    match = [i for i, (a, p, _m) in enumerate(routes) if in_net(dst, a, p)]
    if not match:
        return []
    best_len = max(routes[i][1] for i in match)
    match = [i for i in match if routes[i][1] == best_len]
    best_metric = min(routes[i][2] for i in match)
    return [i for i in match if routes[i][2] == best_metric]


# ---------------------------------------------------------------------------------------------------------------------
# spec -> scenario dict

PERMIT_ALL = {"action": "PERMIT"}


def build_cfg(spec: Dict, n_domains: int = 0) -> Dict:
    """Scenario dict for a spec. DNS servers get the domains q0.test .. q<n_domains-1>.test through the documented
    `domain_mapping` option (so that a server declared OFF knows them too once it is started)."""
    dur = int(spec.get("dur", 1))
    nodes = []
    for n in spec["nodes"]:
        k = n["k"]
        common = {"hostname": n["name"], "start_up_duration": dur, "shut_down_duration": dur}
        if n.get("off"):
            common["operating_state"] = "OFF"
        if k == "switch":
            nodes.append({"type": "switch", "num_ports": 8, **common})
        elif k == "host":
            d = {"type": "server" if n.get("dns") else "computer", "ip_address": n["ip"],
                 "subnet_mask": mask_str(n["plen"]), **common}
            if n.get("gw"):
                d["default_gateway"] = n["gw"]
            if n.get("nic2"):
                d["network_interfaces"] = {2: {"ip_address": n["nic2"][0], "subnet_mask": mask_str(n["nic2"][1])}}
            if n.get("dns"):
                d["services"] = [{"type": "dns-server", "options": {
                    "domain_mapping": {f"q{i}.test": "10.99.0.1" for i in range(n_domains)}}}]
            nodes.append(d)
        elif k == "router":
            d = {"type": "router", "num_ports": 5, **common,
                 "ports": {int(p): {"ip_address": ip, "subnet_mask": mask_str(pl)} for p, ip, pl in n["ifs"]},
                 "acl": {1: dict(PERMIT_ALL)}}
            _routes(d, n)
            nodes.append(d)
        elif k == "firewall":
            names = {1: "external_port", 2: "internal_port", 3: "dmz_port"}
            d = {"type": "firewall", **common,
                 "ports": {names[int(p)]: {"ip_address": ip, "subnet_mask": mask_str(pl)} for p, ip, pl in n["ifs"]},
                 "acl": {key: {1: dict(PERMIT_ALL)} for key in (
                     "internal_inbound_acl", "internal_outbound_acl", "dmz_inbound_acl", "dmz_outbound_acl",
                     "external_inbound_acl", "external_outbound_acl")}}
            _routes(d, n)
            nodes.append(d)
        elif k == "wrouter":
            ifs = {int(p): (ip, pl) for p, ip, pl in n["ifs"]}
            d = {"type": "wireless-router", **common,
                 "router_interface": {"ip_address": ifs[2][0], "subnet_mask": mask_str(ifs[2][1])},
                 "wireless_access_point": {"ip_address": ifs[1][0], "subnet_mask": mask_str(ifs[1][1]),
                                           "frequency": n.get("freq", "WIFI_2_4")},
                 "acl": {1: dict(PERMIT_ALL)}}
            _routes(d, n, default_ok=False)
            nodes.append(d)
        else:
            raise ValueError(k)
    links = [{"endpoint_a_hostname": a, "endpoint_a_port": int(ap), "endpoint_b_hostname": b, "endpoint_b_port": int(bp)}
             for a, ap, b, bp in spec["links"]]
    return base_cfg(nodes, links)


def _routes(d: Dict, n: Dict, default_ok: bool = True):
    if n.get("routes"):
        d["routes"] = [{"address": a, "subnet_mask": mask_str(pl), "next_hop_ip_address": nh, "metric": m}
                       for a, pl, nh, m in n["routes"]]
    if n.get("default"):
        if not default_ok:
            raise ValueError("wireless-router config has no default_route key")
        d["default_route"] = {"next_hop_ip_address": n["default"]}


# ---------------------------------------------------------------------------------------------------------------------
# reference reachability


class State:
    """Dynamic flags the reference needs; supplied by the caller (read at the time of the operation)."""

    def __init__(self, up: Callable[[str], bool], en: Callable[[str, int], bool]):
        self.up, self.en = up, en


DELIVERED, MISDELIVERED, TO_ROUTER, DROP, UNKNOWN = "delivered", "misdelivered", "router", "drop", "unknown"


class Ref:
    def __init__(self, spec: Dict):
        self.spec = spec
        self._trace: Optional[List[str]] = None
        self.saw_hairpin = False  # set when a walk leaves a routing device through the port it entered by
        self._branched = False  # set when a walk had to explore more than one possibility
        self.kind: Dict[str, str] = {}
        self.node: Dict[str, Dict] = {}
        self.ifs: Dict[Tuple[str, int], Tuple[int, int]] = {}  # (node, port) -> (ip, plen)
        self.ports: Dict[str, List[int]] = {}
        self.peer: Dict[Tuple[str, int], Tuple[str, int]] = {}
        for n in spec["nodes"]:
            name = n["name"]
            self.kind[name] = n["k"]
            self.node[name] = n
            if n["k"] == "host":
                self.ifs[(name, 1)] = (ip2int(n["ip"]), n["plen"])
                self.ports[name] = [1]
                if n.get("nic2"):
                    self.ifs[(name, 2)] = (ip2int(n["nic2"][0]), n["nic2"][1])
                    self.ports[name] = [1, 2]
            elif n["k"] == "switch":
                self.ports[name] = []
            else:
                self.ports[name] = sorted(int(p) for p, _ip, _pl in n["ifs"])
                for p, ip, pl in n["ifs"]:
                    self.ifs[(name, int(p))] = (ip2int(ip), pl)
        for a, ap, b, bp in spec["links"]:
            self.peer[(a, int(ap))] = (b, int(bp))
            self.peer[(b, int(bp))] = (a, int(ap))
            for nn, pp in ((a, int(ap)), (b, int(bp))):
                if self.kind[nn] == "switch":
                    self.ports[nn].append(pp)
        self.hosts = [n["name"] for n in spec["nodes"] if n["k"] == "host"]
        self.l3 = [n["name"] for n in spec["nodes"] if n["k"] in ("router", "firewall", "wrouter")]
        self.owner_of_ip: Dict[int, List[str]] = {}
        for (nn, _p), (ip, _pl) in self.ifs.items():
            self.owner_of_ip.setdefault(ip, []).append(nn)

    # -- layer 2 ------------------------------------------------------------------------------------------------------
    def l2_owners(self, n: str, p: int, ip: int, st: State) -> List[Tuple[str, int]]:
        """IP interfaces owning `ip` that a frame leaving interface (n,p) can reach without crossing a router."""
        if not st.en(n, p):
            return []
        out: List[Tuple[str, int]] = []
        seen: Set[Tuple[str, int]] = {(n, p)}
        stack: List[Tuple[str, int]] = []

        def emit(frm: Tuple[str, int]):
            """endpoints at which a frame sent out of interface `frm` arrives"""
            nn, pp = frm
            if self.kind[nn] == "wrouter" and pp == 1:
                fr = self.node[nn].get("freq", "WIFI_2_4")
                for m in self.l3:
                    if m != nn and self.kind[m] == "wrouter" and self.node[m].get("freq", "WIFI_2_4") == fr \
                            and (m, 1) in self.ifs and st.en(m, 1) and (m, 1) not in seen:
                        seen.add((m, 1))
                        stack.append((m, 1))
                return
            pe = self.peer.get(frm)
            if pe and st.en(*pe) and pe not in seen:
                seen.add(pe)
                stack.append(pe)

        emit((n, p))
        while stack:
            e = stack.pop()
            nn, pp = e
            if self.kind[nn] == "switch":
                for q in self.ports[nn]:
                    if (nn, q) not in seen and st.en(nn, q):
                        seen.add((nn, q))
                        emit((nn, q))
            else:
                if self.ifs[e][0] == ip:
                    out.append(e)
        return out

    # -- layer 3 ------------------------------------------------------------------------------------------------------
    def _routes_int(self, r: str):
        return [(ip2int(a), pl, float(m)) for a, pl, _nh, m in self.node[r].get("routes", [])]

    def next_hops(self, r: str, dst: int) -> List[Optional[int]]:
        """Valid next hops for dst at router r per LPM / metric / default-last; [] = no route."""
        routes = self.node[r].get("routes", [])
        idx = ref_lpm(self._routes_int(r), dst)
        if idx:
            nhs = []
            for i in idx:
                nh = ip2int(routes[i][2])
                if nh not in nhs:
                    nhs.append(nh)
            return nhs
        if self.node[r].get("default"):
            return [ip2int(self.node[r]["default"])]
        return []

    def connected_port(self, r: str, ip: int) -> Optional[int]:
        for p in self.ports[r]:
            a, pl = self.ifs[(r, p)]
            if in_net(ip, a, pl):
                return p
        return None

    def walk_alts(self, src: str, dst: int, st: State) -> List[Tuple[int, Set[Tuple[str, str]]]]:
        """Ways host `src` may send a unicast packet to `dst`: list of (source port, possible fates).

        A host sends on-link through its first ENABLED interface whose subnet contains dst (falling back to the default
        gateway when the address does not answer ARP), otherwise to the default gateway through an enabled interface on
        the gateway's subnet.  A multi-homed host may hold an ARP entry for an on-link address that it learned through
        another interface (from routed replies while the on-link NIC was down) and then still use the gateway, so for
        such hosts the gateway way is listed as a second alternative next to the on-link one.
        """
        if not st.up(src):
            return [(1, {(DROP, "src-down")})]
        h = self.node[src]
        ports = [p for p in self.ports[src] if st.en(src, p)]
        if not ports:
            return [(1, {(DROP, "src-down")})]
        if any(self.ifs[(src, p)][0] == dst for p in self.ports[src]):
            return [(1, {(UNKNOWN, "self")})]
        gw = ip2int(h["gw"]) if h.get("gw") else None

        def via_gateway():
            if gw is None:
                return None, {(DROP, "no-gateway")}
            pg = next((p for p in ports if in_net(gw, *self.ifs[(src, p)])), None)
            if pg is None:
                return None, {(DROP, "no-gateway")}
            owners = [o for o in self.l2_owners(src, pg, gw, st) if st.up(o[0])]
            if not owners:
                return pg, {(DROP, "arp-unresolved")}
            if len(owners) > 1:
                return pg, {(UNKNOWN, "duplicate-address")}
            return pg, self._arrive(owners[0], dst, st, {}, 0)

        on = next((p for p in ports if in_net(dst, *self.ifs[(src, p)])), None)
        if on is None:
            pg, fates = via_gateway()
            return [(pg or ports[0], fates)]
        alts = []
        owners = [o for o in self.l2_owners(src, on, dst, st) if st.up(o[0])]
        if len(owners) > 1:
            alts.append((on, {(UNKNOWN, "duplicate-address")}))
        elif owners:
            alts.append((on, self._arrive(owners[0], dst, st, {}, 0)))
        else:
            # HostARP falls back to the default gateway when the on-link address does not answer
            pg, fates = via_gateway()
            alts.append((pg or on, fates if gw is not None else {(DROP, "arp-unresolved")}))
            if pg is not None and pg != on:
                # ... but only when it has to ask: with a cached entry the frame is put on the dead link and lost, while
                # the gateway on the other interface would deliver it. Cold and warm caches differ -> both fates.
                alts.append((on, {(DROP, "cached-entry-on-dead-link")}))
        if len(self.ports[src]) > 1 and owners:
            pg, fates = via_gateway()
            if pg is not None and pg != on:
                alts.append((pg, fates))
        return alts

    def path(self, src: str, dst: int, st: State) -> Optional[List[str]]:
        """The routing devices a packet from host src to dst passes, in order — only when the reference has exactly one
        way (one sending alternative, no tied routes, no fallback) and that way delivers the packet; else None."""
        self._trace, self._branched = [], False
        try:
            alts = self.walk_alts(src, dst, st)
            trace, branched = list(self._trace), self._branched
        finally:
            self._trace = None
        if len(alts) != 1 or branched:
            return None
        fates = alts[0][1]
        if len(fates) != 1 or next(iter(fates))[0] != DELIVERED:
            return None
        return trace

    def walk(self, src: str, dst: int, st: State) -> Set[Tuple[str, str]]:
        """Possible fates of a unicast packet from host `src` to address `dst`: set of (outcome, node/reason)."""
        out: Set[Tuple[str, str]] = set()
        for _p, fates in self.walk_alts(src, dst, st):
            out |= fates
        return out

    def _arrive(self, at: Tuple[str, int], dst: int, st: State, choice: Dict[str, int], depth: int):
        n, _p = at
        k = self.kind[n]
        if k == "host":
            if self.ifs[at][0] == dst:
                return {(DELIVERED, n)}
            if any(self.ifs[(n, q)][0] == dst for q in self.ports[n]):
                return {(UNKNOWN, "other-interface-of-addressee")}
            return {(MISDELIVERED, n)}
        # routing device
        if self._trace is not None:
            self._trace.append(n)
        if depth > 40:
            return {(DROP, "ttl")}
        if any(self.ifs[(n, q)][0] == dst for q in self.ports[n]):
            return {(TO_ROUTER, n)}
        c = self.connected_port(n, dst)
        if c is not None:
            if c == _p:
                self.saw_hairpin = True
            if not st.en(n, c):
                return {(DROP, "out-port-disabled")}
            owners = [o for o in self.l2_owners(n, c, dst, st) if st.up(o[0])]
            if not owners:
                return {(DROP, "arp-unresolved")}
            if len(owners) > 1:
                return {(UNKNOWN, "duplicate-address")}
            return self._arrive(owners[0], dst, st, choice, depth + 1)
        if n in choice:
            nhs = [choice[n]]
        else:
            nhs = self.next_hops(n, dst)
        if not nhs:
            return {(DROP, "no-route")}
        out = set()
        if len(nhs) > 1:
            self._branched = True
        for nh in nhs:
            ch = dict(choice)
            ch[n] = nh
            c = self.connected_port(n, nh)
            if c is None:
                out.add((UNKNOWN, "next-hop-not-connected"))
                continue
            if c == _p:
                self.saw_hairpin = True
            if not st.en(n, c):
                out.add((DROP, "out-port-disabled"))
                continue
            owners = [o for o in self.l2_owners(n, c, nh, st) if st.up(o[0])]
            if not owners:
                out.add((DROP, "arp-unresolved"))
                # RouterARP falls back to the default route's next hop when the selected next hop does not answer ARP.
                # "default route as last resort" admits that reading, so both fates are accepted.
                dflt = self.node[n].get("default")
                if dflt and ip2int(dflt) != nh and not choice.get("_fallback:" + n):
                    self._branched = True
                    ch2 = dict(ch)
                    ch2[n] = ip2int(dflt)
                    ch2["_fallback:" + n] = 1
                    out |= self._arrive(at, dst, st, ch2, depth + 1)
                continue
            if len(owners) > 1:
                out.add((UNKNOWN, "duplicate-address"))
                continue
            out |= self._arrive(owners[0], dst, st, ch, depth + 1)
        return out

    def hops(self, src: str, dst_host: str) -> int:
        """Number of routing devices on the reference path between two hosts with everything up (-1: not delivered)."""
        always = State(lambda n: True, lambda n, p: True)
        self._trace = []
        try:
            res = self.walk(src, self.ifs[(dst_host, 1)][0], always)
            n = len(set(self._trace))
        finally:
            self._trace = None
        return n if res == {(DELIVERED, dst_host)} else -1

    def exchange(self, a: str, b: str, st: State, b_port: int = 1) -> Optional[bool]:
        """True/False = request a->b (address of b's interface b_port) and the reply to the request's source address are
        both delivered / certainly not, whichever way the hosts may send; None = reference undecided."""
        verdicts = set()
        for sp, fwd in self.walk_alts(a, self.ifs[(b, b_port)][0], st):
            if any(o == UNKNOWN for o, _ in fwd):
                return None
            if fwd != {(DELIVERED, b)}:
                if (DELIVERED, b) in fwd:
                    return None  # tie-dependent
                verdicts.add(False)
                continue
            if (a, sp) not in self.ifs:
                return None
            for _rp, rev in self.walk_alts(b, self.ifs[(a, sp)][0], st):
                if any(o == UNKNOWN for o, _ in rev):
                    return None
                if rev != {(DELIVERED, a)}:
                    if (DELIVERED, a) in rev:
                        return None
                    verdicts.add(False)
                else:
                    verdicts.add(True)
        if len(verdicts) != 1:
            return None
        return verdicts.pop()
