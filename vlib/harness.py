"""Common runner: workers, collect-mode Hypothesis driving, ddmin shrinking, known findings, evidence."""
from __future__ import annotations

import collections
import fnmatch
import hashlib
import json
import multiprocessing as mp
import os
import sys
import time
import traceback
from typing import Any, Callable, Dict, Iterable, List, Optional

VERIF = os.path.dirname(os.path.dirname(os.path.abspath(__file__)))
FINDINGS_FILE = os.path.join(VERIF, "known_findings.json")


def jhash(obj: Any) -> str:
    return hashlib.sha1(json.dumps(obj, sort_keys=True, default=str).encode()).hexdigest()[:16]


class CaseResult:
    """Outcome of running one case: violations (signature, message), whether non-trivial, labels for the distribution."""

    __slots__ = ("violations", "nontrivial", "labels", "key", "extra")

    def __init__(self):
        self.violations: List[tuple] = []
        self.nontrivial: Any = False  # False / True / hashable key (then distinctness is by key, not by case hash)
        self.labels: List[str] = []
        self.key = None
        self.extra: Dict[str, Any] = {}

    def violate(self, sig: str, msg: str = ""):
        self.violations.append((sig, msg))

    def label(self, *names: str):
        self.labels.extend(names)


class Ctx:
    """Per-worker collection context."""

    def __init__(self, prop: str, seed: int, tier: str, idx: int, nworkers: int, known_sigs: List[str], excl: Dict):
        self.prop, self.seed, self.tier, self.idx, self.n = prop, seed, tier, idx, nworkers
        self.known_sigs = known_sigs
        self.excl = excl  # finding-id -> True when that finding's exclusion-by-construction is switched on
        self.evaluations = 0
        self.nontrivial: set = set()
        self.samples: List[Any] = []
        self.nt_samples: List[Any] = []
        self.dist = collections.Counter()
        self.violations: Dict[str, Dict] = {}  # sig -> first (smallest) case
        self.viol_count = collections.Counter()
        self.excluded = collections.Counter()
        self.extra: Dict[str, Any] = {}
        self.t0 = time.time()

    @property
    def wseed(self) -> int:
        return self.seed * 1000 + self.idx

    def is_known(self, sig: str) -> bool:
        return any(fnmatch.fnmatchcase(sig, pat) for pat in self.known_sigs)

    def record(self, case: Any, res: CaseResult):
        self.evaluations += 1
        for lab in res.labels:
            self.dist[lab] += 1
        if res.nontrivial:
            key = jhash(case) if res.nontrivial is True else jhash(res.nontrivial)
            if key not in self.nontrivial and len(self.nt_samples) < 3:
                self.nt_samples.append(case)
            self.nontrivial.add(key)
        elif len(self.samples) < 2:
            self.samples.append(case)
        for sig, msg in res.violations:
            self.viol_count[sig] += 1
            if self.is_known(sig):
                self.excluded["known:" + sig] += 1
                continue
            size = len(json.dumps(case, default=str))
            cur = self.violations.get(sig)
            if cur is None or size < cur["size"]:
                self.violations[sig] = {"sig": sig, "msg": msg, "case": case, "size": size}

    def result(self) -> Dict:
        return {
            "idx": self.idx,
            "evaluations": self.evaluations,
            "nontrivial": sorted(self.nontrivial),
            "samples": (self.nt_samples + self.samples)[:4],
            "dist": dict(self.dist),
            "violations": self.violations,
            "viol_count": dict(self.viol_count),
            "excluded": dict(self.excluded),
            "extra": self.extra,
            "wall": time.time() - self.t0,
        }


def hyp_run(ctx: Ctx, strategy, run_case: Callable[[Any], CaseResult], max_examples: int, sub: int = 0):
    """Drive run_case with Hypothesis-generated cases in collect mode (violations are recorded, not raised)."""
    from hypothesis import HealthCheck, Phase, given, seed, settings

    @seed(ctx.wseed * 10 + sub)
    @settings(
        max_examples=max_examples,
        database=None,
        deadline=None,
        derandomize=False,
        phases=[Phase.generate],
        report_multiple_bugs=False,
        suppress_health_check=list(HealthCheck),
    )
    @given(strategy)
    def _t(case):
        res = run_case(case)
        ctx.record(case, res)

    _t()


def enum_run(ctx: Ctx, cases: Iterable[Any], run_case: Callable[[Any], CaseResult]):
    """Run the slice of an enumerated finite domain that belongs to this worker (round-robin sharding)."""
    for i, case in enumerate(cases):
        if i % ctx.n != ctx.idx:
            continue
        res = run_case(case)
        ctx.record(case, res)


# ---------------------------------------------------------------------------------------------------------------------
# shrinking


def ddmin_ops(case: Dict, key: str, reproduces: Callable[[Dict], bool], budget: int = 150) -> Dict:
    """Delta-debug the list case[key] while `reproduces` keeps returning True. Bounded by number of executions."""
    ops = list(case[key])
    calls = 0

    def test(cand):
        nonlocal calls
        calls += 1
        c = dict(case)
        c[key] = cand
        try:
            return reproduces(c)
        except Exception:
            return False

    n = 2
    while len(ops) >= 2 and calls < budget:
        chunk = max(1, len(ops) // n)
        reduced = False
        for i in range(0, len(ops), chunk):
            cand = ops[:i] + ops[i + chunk:]
            if cand and test(cand):
                ops = cand
                n = max(n - 1, 2)
                reduced = True
                break
            if calls >= budget:
                break
        if not reduced:
            if chunk == 1:
                break
            n = min(len(ops), n * 2)
    out = dict(case)
    out[key] = ops
    return out


# ---------------------------------------------------------------------------------------------------------------------
# known findings


def load_findings(prop: str) -> List[Dict]:
    """known_findings.json plus per-property findings/known_<ID>.json files (same format)."""
    import glob

    out = []
    files = [FINDINGS_FILE] + sorted(glob.glob(os.path.join(VERIF, "findings", "known_*.json")))
    for fn in files:
        if not os.path.exists(fn):
            continue
        with open(fn) as f:
            data = json.load(f)
        out.extend(x for x in data.get("findings", []) if x.get("property") == prop)
    return out


def _sigs(f: Dict) -> List[str]:
    """A finding's signature may be one pattern or a list of patterns (one root cause seen through several oracle clauses)."""
    s = f.get("signature", [])
    return [s] if isinstance(s, str) else list(s)


def open_ids(prop: str) -> List[str]:
    return [f["id"] for f in load_findings(prop) if f.get("status") == "open"]


# ---------------------------------------------------------------------------------------------------------------------
# parent


def _worker_entry(mod, ctx: Ctx, conn):
    try:
        from . import entropy

        entropy.reset()
        mod.worker(ctx)
        conn.send(("ok", ctx.result()))
    except BaseException:  # harness error: never reported as a violation
        conn.send(("err", traceback.format_exc()))
    finally:
        conn.close()


def run_check(mod, tier: str, seed: int, replay: Optional[str] = None) -> int:
    prop = mod.ID
    t0 = time.time()
    findings = load_findings(prop)
    open_f = [f for f in findings if f.get("status") == "open"]
    known_sigs = [p_ for f in open_f for p_ in _sigs(f)]

    if replay:
        with open(replay) as f:
            rp = json.load(f)
        case = rp["case"] if isinstance(rp, dict) and "case" in rp else rp
        res = mod.run_case(case)
        bad = [(s, m) for s, m in res.violations]
        for s, m in bad:
            print(f"replay: {s}: {m}")
        unknown = [s for s, _ in bad if not any(fnmatch.fnmatchcase(s, p) for p in known_sigs)]
        if unknown:
            print(f"VIOLATION property={prop} replay={replay}")
            return 1
        print("replay: no unlisted violation")
        return 0

    # 1. replay every open finding: print KNOWN-FINDING when it still reproduces
    excl = {}
    known_report = []
    for f in open_f:
        reproduced = False
        try:
            with open(os.path.join(VERIF, f["replay"])) as fh:
                rp = json.load(fh)
            res = mod.run_case(rp["case"])
            reproduced = any(fnmatch.fnmatchcase(s, p_) for s, _ in res.violations for p_ in _sigs(f))
        except Exception:
            print(f"harness: could not replay finding {f.get('id')}:\n{traceback.format_exc()}", file=sys.stderr)
            return 2
        if reproduced:
            print(f"KNOWN-FINDING: property={prop} {f['id']}: {f['description']}")
            excl[f["id"]] = True
        known_report.append({"id": f["id"], "signature": f["signature"], "reproduced": reproduced})

    # 1b. fixed findings suppress nothing: their replays run as plain regressions, a reappearance is a violation
    regress: Dict[str, Dict] = {}
    for f in findings:
        if f.get("status") != "fixed" or not f.get("replay"):
            continue
        try:
            with open(os.path.join(VERIF, f["replay"])) as fh:
                rp = json.load(fh)
            res = mod.run_case(rp["case"])
        except Exception:
            print(f"harness: could not replay finding {f.get('id')}:\n{traceback.format_exc()}", file=sys.stderr)
            return 2
        for s_, m_ in res.violations:
            if not any(fnmatch.fnmatchcase(s_, p_) for p_ in known_sigs):
                regress.setdefault(s_, {"sig": s_, "msg": f"(regression of {f['id']}) {m_}", "case": rp["case"], "size": 0})
        known_report.append({"id": f["id"], "status": "fixed", "regressed": bool(res.violations)})

    # 2. workers
    nw = mod.WORKERS[tier] if isinstance(getattr(mod, "WORKERS", None), dict) else 8
    nw = int(os.environ.get("VERIF_WORKERS", nw))
    mpctx = mp.get_context("fork")
    procs = []
    for i in range(nw):
        parent, child = mpctx.Pipe(duplex=False)
        ctx = Ctx(prop, seed, tier, i, nw, known_sigs, excl)
        p = mpctx.Process(target=_worker_entry, args=(mod, ctx, child))
        p.start()
        child.close()
        procs.append((p, parent))
    results, errors = [], []
    for p, conn in procs:
        try:
            kind, payload = conn.recv()
        except EOFError:
            kind, payload = "err", f"worker died without a result (exitcode {p.exitcode})"
        p.join()
        (results if kind == "ok" else errors).append(payload)
    if errors:
        print("harness error in worker:\n" + errors[0], file=sys.stderr)
        return 2

    # 3. merge
    evaluations = sum(r["evaluations"] for r in results)
    nontrivial = set()
    dist = collections.Counter()
    excluded = collections.Counter()
    viol_count = collections.Counter()
    samples = []
    viols: Dict[str, Dict] = dict(regress)
    extra: Dict[str, Any] = {}
    for r in results:
        nontrivial.update(r["nontrivial"])
        dist.update(r["dist"])
        excluded.update(r["excluded"])
        viol_count.update(r["viol_count"])
        samples.extend(r["samples"][:2])
        for sig, v in r["violations"].items():
            if sig not in viols or v["size"] < viols[sig]["size"]:
                viols[sig] = v
        for k, v in r["extra"].items():
            if isinstance(v, (int, float)) and not isinstance(v, bool):
                extra[k] = extra.get(k, 0) + v
            elif isinstance(v, bool):
                extra[k] = extra.get(k, True) and v
            else:
                extra.setdefault(k, v)

    # 4. unknown violations: shrink, write replay, report
    rc = 0
    out_lines = []
    os.makedirs(os.path.join(VERIF, "replays"), exist_ok=True)
    shrink_keys = getattr(mod, "SHRINK_KEY", "ops")
    if isinstance(shrink_keys, str):
        shrink_keys = [shrink_keys]
    for n, (sig, v) in enumerate(sorted(viols.items())):
        case = v["case"]
        for shrink_key in shrink_keys:
            if n < 6 and isinstance(case, dict) and isinstance(case.get(shrink_key), list) and len(case[shrink_key]) > 1:
                def rep(c, sig=sig):
                    return any(s == sig for s, _ in mod.run_case(c).violations)

                try:
                    case = ddmin_ops(case, shrink_key, rep,
                                     budget=getattr(mod, "SHRINK_BUDGET", 80 if tier == "quick" else 300))
                except Exception:
                    pass
        # runs against another tree (VERIF_REPO: mutants, seeded changes) keep their output apart from what is
        # committed as evidence of /repo itself
        path = os.path.join(".work/alt-tree/replays" if os.environ.get("VERIF_REPO") else "replays", f"{prop}-{jhash(sig)}.json")
        os.makedirs(os.path.dirname(os.path.join(VERIF, path)), exist_ok=True)
        with open(os.path.join(VERIF, path), "w") as fh:
            json.dump({"property": prop, "signature": sig, "message": v["msg"], "case": case}, fh, indent=1, default=str)
        out_lines.append(f"VIOLATION property={prop} replay={path}")
        print(f"violation: {sig}: {v['msg'][:400]}")
        rc = 1
    for line in out_lines:
        print(line)

    # 5. evidence
    wall = time.time() - t0
    cov = {
        "evaluations": int(evaluations),
        "distinct_nontrivial": len(nontrivial),
        "rule": mod.RULE,
        "samples": samples[:5],
        "distribution": dict(sorted(dist.items())),
        "violation_signatures": {k: int(c) for k, c in sorted(viol_count.items())},
        "known_findings": known_report,
        "excluded_as_known": dict(excluded),
        "workers": nw,
    }
    cov.update(extra)
    ev = {
        "property_id": prop,
        "tier": tier,
        "seed": seed,
        "level": "exploration",
        "coverage": cov,
        "assumptions": list(getattr(mod, "ASSUMPTIONS", [])),
        "wall_s": round(wall, 2),
        "violations": len(viols),
    }
    ev_dir = os.path.join(VERIF, ".work/alt-tree/evidence" if os.environ.get("VERIF_REPO") else "evidence")
    os.makedirs(ev_dir, exist_ok=True)
    with open(os.path.join(ev_dir, f"{prop}.json"), "w") as fh:
        json.dump(ev, fh, indent=1, default=str)
    print(
        f"{prop} {tier} seed={seed}: {evaluations} cases, {len(nontrivial)} distinct non-trivial, "
        f"{len(viols)} unlisted violation signature(s), {sum(excluded.values())} known, {wall:.1f}s"
    )
    return rc
