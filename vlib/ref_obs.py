"""Independent reader for C09: what should the blue agent's observation be, given the scenario DICT and the simulator OBJECTS?

Written from docs/source/configuration/{agents,game}.rst, the observation table in
notebooks/Data-Manipulation-E2E-Demonstration.ipynb ("Observation Space" / "Mappings") and the docstrings of the
observation ConfigSchemas.  It never touches ObservationManager / AbstractObservation objects and never calls
describe_state(): every quantity is read from an attribute of a simulator object.

Output: a tree shaped like the nested observation whose leaves are ``Leaf`` (set of accepted encodings, default
encoding, tag).  A leaf accepts more than one encoding only where the documents leave a convention open (listed in
findings/C09-NOTES.md): NMNE delta across steps in which the node was not ON, two software
instances with one name.
"""
from __future__ import annotations

from typing import Any, Dict, List, Optional, Tuple

# ---------------------------------------------------------------------------------------------------------------------
# documented code tables (Data-Manipulation-E2E-Demonstration.ipynb, "Mappings"); keyed by enum NAME, not by .value

NODE_STATE = {"ON": 1, "OFF": 2, "BOOTING": 3, "SHUTTING_DOWN": 4}
SERVICE_STATE = {"RUNNING": 1, "STOPPED": 2, "PAUSED": 3, "DISABLED": 4, "INSTALLING": 5, "RESTARTING": 6}
# the notebook documents the service table only; the application states are defined by the code's enum alone
APP_STATE = {"RUNNING": 1, "CLOSED": 2, "INSTALLING": 3}
SW_HEALTH = {"UNUSED": 0, "GOOD": 1, "FIXING": 2, "COMPROMISED": 3, "OVERWHELMED": 4}
FS_HEALTH = {"NONE": 0, "GOOD": 1, "COMPROMISED": 2, "CORRUPT": 3, "RESTORING": 4, "REPAIRING": 5}
ACL_PERMISSION = {"PERMIT": 1, "DENY": 2}

DEFAULT_THRESHOLDS = (0, 5, 10)  # low, medium, high: 0 none, 1..5 low, 6..10 medium, >10 high (strict '>')
MAX_COUNT = 3  # creations / deletions / remote sessions are capped at the top of their Discrete(4)

HOST_SHARED = ("num_services", "num_applications", "num_folders", "num_files", "num_nics", "include_nmne",
               "monitored_traffic", "include_num_access", "file_system_requires_scan", "services_requires_scan",
               "applications_requires_scan")
HOST_KEYS = set(HOST_SHARED) | {"hostname", "services", "applications", "folders", "include_users"}
NODES_KEYS = set(HOST_SHARED) | {"hosts", "routers", "firewalls", "include_users", "num_ports", "ip_list",
                                 "wildcard_list", "port_list", "protocol_list", "num_rules"}
ACL_SHARED = ("ip_list", "wildcard_list", "port_list", "protocol_list", "num_rules")


class Unsupported(Exception):
    """The observation config uses a key the reader does not model (the case is then skipped, and counted)."""


class Leaf:
    __slots__ = ("ok", "default", "tag")

    def __init__(self, value: int, default: int = 0, tag: str = "", alt: Tuple[int, ...] = ()):
        self.ok = (int(value),) + tuple(int(a) for a in alt)
        self.default = default
        self.tag = tag

    def __repr__(self):
        return f"Leaf{self.ok}" + (f"[{self.tag}]" if self.tag else "")


class Opt:
    """A subtree the documents allow to be present or absent (checked only if present)."""

    __slots__ = ("tree",)

    def __init__(self, tree):
        self.tree = tree


def retag(tree, suffix: str):
    """Append a structural key to the tag of every leaf below `tree`."""
    if isinstance(tree, Opt):
        tree = tree.tree
    if isinstance(tree, Leaf):
        tree.tag = f"{tree.tag}:{suffix}" if tree.tag else suffix
        return
    for v in tree.values():
        retag(v, suffix)


def bin3(n: int, th: Tuple[int, int, int]) -> int:
    low, med, high = th
    if n > high:
        return 3
    if n > med:
        return 2
    if n > low:
        return 1
    return 0


def band(value: float, capacity: float) -> int:
    """Documented load band: 0 exactly when there is no traffic, else int(utilisation*9)+1."""
    if value == 0:
        return 0
    return int(value / capacity * 9) + 1


def _port_num(p) -> int:
    from primaite.utils.validation.port import PORT_LOOKUP  # the documented name -> number table (game.rst)

    if isinstance(p, str):
        return PORT_LOOKUP[p]
    return int(p)


def _proto(p) -> str:
    return str(p).lower()


def find_blue_obs_cfg(cfg: Dict) -> Tuple[Optional[Dict], str]:
    for a in cfg.get("agents", []) or []:
        if a.get("type") == "proxy-agent":
            return a.get("observation_space"), a["ref"]
    raise Unsupported("no proxy agent")


class RefReader:
    def __init__(self, cfg: Dict):
        self.cfg = cfg
        self.obs_cfg, self.agent_ref = find_blue_obs_cfg(cfg)
        game = cfg.get("game", {}) or {}
        th = game.get("thresholds") or {}
        self.th = {}
        for kind in ("nmne", "file_access", "app_executions"):
            t = th.get(kind)
            self.th[kind] = (t["low"], t["medium"], t["high"]) if t else DEFAULT_THRESHOLDS
        net = (cfg.get("simulation", {}) or {}).get("network", {}) or {}
        self.capture_nmne = bool((net.get("nmne_config") or {}).get("capture_nmne", False))
        # NMNE memory: (host, nic) -> {"prev": totals at the end of the previous step, "seen": totals when the NIC was
        # last reported (node ON)}
        self.nmne_mem: Dict[Tuple[str, int], Dict[str, Tuple[int, int]]] = {}
        self.pairs = 0  # visible != actual pairs among observed components (this step)
        # kinds of observed component whose source value is non-default while its node is not ON (this step): the
        # situation in which "not ON -> default" actually hides something
        self.masked: set = set()
        self.fresh = False
        # (host, folder) -> health code published by the last folder scan that ran to completion (signature key only)
        self.folder_pub: Dict[Tuple[str, str], int] = {}
        # hostname -> was the node ON at the end of the previous step (None right after a reset)
        self.prev_on: Dict[str, bool] = {}
        self.tstep = -1  # the timestep number the current step began with (game.step_counter - 1); -1 after a reset
        self.validate()

    # -- config ------------------------------------------------------------------------------------------------------

    def validate(self):
        oc = self.obs_cfg
        if oc is None:
            return
        t = oc.get("type", "none")
        comps = self.components()
        for typ, label, opts in comps:
            if typ == "nodes":
                extra = set(opts) - NODES_KEYS
                if extra:
                    raise Unsupported(f"nodes options {sorted(extra)}")
                for h in opts.get("hosts", []) or []:
                    if set(h) - HOST_KEYS:
                        raise Unsupported(f"host options {sorted(set(h) - HOST_KEYS)}")
                for r in opts.get("routers", []) or []:
                    if set(r) - ({"hostname", "num_ports", "include_users"} | set(ACL_SHARED)):
                        raise Unsupported(f"router options {sorted(r)}")
                for f in opts.get("firewalls", []) or []:
                    if set(f) - ({"hostname", "include_users"} | set(ACL_SHARED)):
                        raise Unsupported(f"firewall options {sorted(f)}")
            elif typ == "links":
                if set(opts) - {"link_references"}:
                    raise Unsupported(f"links options {sorted(opts)}")
            elif typ == "none":
                pass
            else:
                raise Unsupported(f"component type {typ}")
        if t not in ("custom", "nodes", "links", "none"):
            raise Unsupported(f"top-level type {t}")

    def components(self) -> List[Tuple[str, Optional[str], Dict]]:
        oc = self.obs_cfg
        t = oc.get("type", "none")
        opts = oc.get("options") or {}
        if t == "custom":
            if set(opts) - {"components"}:
                raise Unsupported(f"custom options {sorted(opts)}")
            return [(c["type"], c["label"], c.get("options") or {}) for c in opts.get("components", [])]
        return [(t, None, opts)]

    def new_episode(self):
        self.nmne_mem = {}
        self.folder_pub = {}
        self.prev_on = {}

    # -- the reading -------------------------------------------------------------------------------------------------

    def expected(self, game) -> Any:
        """Tree of Leaf for the state of `game` right now. Call exactly once per reset/step (NMNE memory advances)."""
        self.pairs = 0
        self.masked = set()
        net = game.simulation.network
        self.tstep = game.step_counter - 1
        try:
            return self._expected(net)
        finally:
            self.prev_on = {n.config.hostname: n.operating_state.name == "ON" for n in net.nodes.values()}

    def _expected(self, net) -> Any:
        if self.obs_cfg is None:
            return Leaf(0)
        out = {}
        single = None
        for typ, label, opts in self.components():
            if typ == "nodes":
                tree = self.nodes(net, opts)
            elif typ == "links":
                tree = self.links(net, opts)
            else:
                tree = Leaf(0)
            if label is None:
                single = tree
            else:
                out[label] = tree
        return single if single is not None else out

    @staticmethod
    def node_by_name(net, hostname):
        found = [n for n in net.nodes.values() if n.config.hostname == hostname]
        return found[0] if found else None

    def nodes(self, net, opts: Dict) -> Dict:
        out = {}
        for i, h in enumerate(opts.get("hosts", []) or []):
            out[f"HOST{i}"] = self.host(net, h, opts)
        for i, r in enumerate(opts.get("routers", []) or []):
            out[f"ROUTER{i}"] = self.router(net, r, opts)
        for i, f in enumerate(opts.get("firewalls", []) or []):
            out[f"FIREWALL{i}"] = self.firewall(net, f, opts)
        return out

    # hosts ............................................................................................................

    def host(self, net, h: Dict, nodes_opts: Dict) -> Dict:
        o = {}
        for k in HOST_SHARED:
            o[k] = h[k] if h.get(k) is not None else nodes_opts.get(k)
        for k in ("file_system_requires_scan", "services_requires_scan", "applications_requires_scan"):
            if o[k] is None:
                o[k] = True  # documented default: scanning required
        name = h["hostname"]
        node = self.node_by_name(net, name)
        on = node is not None and node.operating_state.name == "ON"
        live = node if on else None  # every component of a node that is not ON reads as default
        # A host that was not ON when this step began and is ON now finished booting in this step's tick: requests were
        # refused while it booted, so nothing has been executed, accessed, created or deleted on it in this step and its
        # per-step counters encode 0 whatever the simulator's attributes still hold (independent event count = 0).
        # Only certain with a start-up duration > 0: then ON is reached from BOOTING in a tick, never inside the action
        # phase. With duration 0 `node-startup` switches the node ON at once, and an agent declared after the one that
        # issued it legitimately executes / accesses things on it in the same step (false alarm corrected, see NOTES).
        self.fresh = bool(on and self.prev_on.get(name) is False and node.config.start_up_duration > 0)
        if self.fresh:
            self.masked.add("boot-completed-this-step")
        if node is not None and not on and self.prev_on.get(name) is True:
            if any(a.num_executions for a in node.applications.values()) or node.file_system.num_file_creations:
                self.masked.add("boot-left-on-in-a-step-with-counts")
        out: Dict[Any, Any] = {"operating_status": Leaf(NODE_STATE[node.operating_state.name] if node is not None else 0)}

        n = o["num_services"] or 0
        if n:
            items = (h.get("services") or [])[:n]
            out["SERVICES"] = {
                i + 1: self.software(live, items[i]["service_name"] if i < len(items) else None, "service",
                                     o["services_requires_scan"], node)
                for i in range(n)
            }
        n = o["num_applications"] or 0
        if n:
            items = (h.get("applications") or [])[:n]
            out["APPLICATIONS"] = {
                i + 1: self.software(live, items[i]["application_name"] if i < len(items) else None, "application",
                                     o["applications_requires_scan"], node)
                for i in range(n)
            }
        n = o["num_folders"] or 0
        if n:
            items = (h.get("folders") or [])[:n]
            out["FOLDERS"] = {
                i + 1: self.folder(live, items[i] if i < len(items) else None, o, node) for i in range(n)
            }
        n = o["num_nics"] or 0
        if n:
            out["NICS"] = {i + 1: self.nic(live, node, name, i + 1, o) for i in range(n)}
        if o["include_num_access"]:
            fs = live.file_system if live is not None else None
            if self.fresh:
                out["num_file_creations"] = Leaf(0, tag="booted-this-step")
                out["num_file_deletions"] = Leaf(0, tag="booted-this-step")
            else:
                out["num_file_creations"] = Leaf(min(fs.num_file_creations, MAX_COUNT) if fs else 0)
                out["num_file_deletions"] = Leaf(min(fs.num_file_deletions, MAX_COUNT) if fs else 0)
        users = self.users(live)
        if h.get("include_users") is not None:
            if h["include_users"]:
                out["users"] = users
        else:
            # HostObservation documents its own default (True); NodesObservation documents a nodes-level switch that the
            # other shared options hand down to hosts. Both readings are accepted when the nodes-level value is False.
            nodes_level = nodes_opts.get("include_users")
            if nodes_level is None or nodes_level:
                out["users"] = users
            else:
                out["users"] = Opt(users)
        if node is not None and not on:
            retag(out, "not-on")
        return out

    def users(self, live) -> Dict:
        if live is None:
            return {"local_login": Leaf(0), "remote_sessions": Leaf(0)}
        usm = live.software_manager.software.get("user-session-manager")
        if usm is None:
            return {"local_login": Leaf(0), "remote_sessions": Leaf(0)}
        t = self.tstep

        def alive(sess, timeout) -> bool:
            # a session times out after `timeout` steps without activity (documented on UserSessionManager): one whose
            # deadline had passed when this step began is not a login any more, whether or not it was cleaned up
            return t < 0 or sess.last_active_step + timeout > t

        local = usm.local_session is not None and alive(usm.local_session, usm.local_session_timeout_steps)
        remote = [x for x in usm.remote_sessions.values() if alive(x, usm.remote_session_timeout_steps)]
        return {
            "local_login": Leaf(1 if local else 0),
            "remote_sessions": Leaf(min(MAX_COUNT, len(remote))),
        }

    def software(self, live, name: Optional[str], kind: str, requires_scan: bool, node) -> Dict:
        is_app = kind == "application"
        tag = "scan-gated" if requires_scan else ""

        def enc(sw):
            if is_app:
                op = APP_STATE[sw.operating_state.name]
            else:
                op = SERVICE_STATE[sw.operating_state.name]
            src = sw.health_state_visible if requires_scan else sw.health_state_actual
            e = {"operating_status": op, "health_status": SW_HEALTH[src.name]}
            if is_app:
                e["num_executions"] = 0 if self.fresh else bin3(sw.num_executions, self.th["app_executions"])
            return e

        keys = ["operating_status", "health_status"] + (["num_executions"] if is_app else [])
        # structural key for signatures: the component kind where a kind has its own reporting rule in the code
        op_tag = "ftp" if (not is_app and name in ("ftp-client", "ftp-server")) else ""
        tags = {"operating_status": op_tag, "health_status": tag,
                "num_executions": "booted-this-step" if getattr(self, "fresh", False) else ""}
        cands = []
        if name is not None and node is not None:
            pool = node.applications if is_app else node.services
            objs = [s for s in pool.values() if s.name == name]
            if objs and any(s.health_state_visible != s.health_state_actual for s in objs):
                self.pairs += 1
            if live is not None:
                cands = [enc(s) for s in objs]
            elif any(enc(s)["health_status"] != 0 for s in objs):
                self.masked.add(kind)
        if not cands:
            return {k: Leaf(0, tag=tags[k]) for k in keys}
        # two instances under one name (a scenario that declares pre-installed software): either may be "the" one
        return {k: Leaf(cands[0][k], tag=tags[k], alt=tuple(c[k] for c in cands[1:])) for k in keys}

    def folder(self, live, fc: Optional[Dict], o: Dict, node) -> Dict:
        requires_scan = o["file_system_requires_scan"]
        tag = "scan-gated" if requires_scan else ""
        nfiles = o["num_files"] or 0
        files_cfg = ((fc or {}).get("files") or [])[:nfiles]
        # live folders with the configured name (more than one only if the file system holds a duplicate name, in
        # which case any of them may be "the" folder)
        folders: List[Any] = []
        if fc is not None and node is not None:
            every = [f for f in node.file_system.folders.values() if f.name == fc["folder_name"]]
            for f in every:
                if f.visible_health_status != f.health_status:
                    self.pairs += 1
                for x in f.files.values():
                    if any(c["file_name"] == x.name for c in files_cfg) and x.visible_health_status != x.health_status:
                        self.pairs += 1

        def fs_code(item) -> int:
            src = item.visible_health_status if requires_scan else item.health_status
            return FS_HEALTH[src.name]

        if fc is not None and node is not None:
            if live is not None:
                folders = every
            else:
                if any(fs_code(f) != 0 for f in every):
                    self.masked.add("folder")
                if any(fs_code(x) != 0 for f in every for x in f.files.values()
                       if any(c["file_name"] == x.name for c in files_cfg)):
                    self.masked.add("file")

        out: Dict[Any, Any] = {}
        codes = [fs_code(f) for f in folders] or [0]
        ftag = tag
        if fc is not None and node is not None and requires_scan:
            # structural key for the signature: did the visible value come from a completed *folder* scan, or was it
            # set by something else (the node's OS scan refreshes visible statuses too)?
            key = (node.config.hostname, fc["folder_name"])
            for f in every[:1]:
                if getattr(f, "_scanned_this_step", False):
                    self.folder_pub[key] = FS_HEALTH[f.visible_health_status.name]
            if folders and codes[0] != self.folder_pub.get(key, 0):
                ftag = tag + ":not-by-folder-scan"
        out["health_status"] = Leaf(codes[0], tag=ftag, alt=tuple(codes[1:]))
        if nfiles:
            files = {}
            for i in range(nfiles):
                cands: List[Any] = []
                if i < len(files_cfg):
                    for f in folders:
                        cands += [x for x in f.files.values() if x.name == files_cfg[i]["file_name"] and not x.deleted]
                e: Dict[str, Leaf] = {}
                codes = [fs_code(x) for x in cands] or [0]
                e["health_status"] = Leaf(codes[0], tag=tag, alt=tuple(codes[1:]))
                if o["include_num_access"]:
                    bins = [bin3(x.num_access, self.th["file_access"]) for x in cands] or [0]
                    # a folder scan / restore that completes in the very tick the host finishes booting does access files
                    done_now = any(f.scan_countdown == 0 or f.restore_countdown == 0 or getattr(f, "_scanned_this_step", 0)
                                   for f in folders)
                    if self.fresh and not done_now:
                        e["num_access"] = Leaf(0, tag="booted-this-step")
                    else:
                        e["num_access"] = Leaf(bins[0], alt=tuple(bins[1:]))
                files[i + 1] = e
            out["FILES"] = files
        return out

    def nic(self, live, node, hostname: str, num: int, o: Dict) -> Dict:
        nic_any = node.network_interface.get(num) if node is not None else None
        nic = nic_any if live is not None else None
        out: Dict[Any, Any] = {"nic_status": Leaf(0 if nic is None else (1 if nic.enabled else 2))}
        if o["include_nmne"]:
            out["NMNE"] = self.nmne(nic_any, nic is not None, (hostname, num))
        mt = o.get("monitored_traffic")
        if mt:
            tr: Dict[str, Any] = {}
            for proto_key, ports in mt.items():
                proto = _proto(proto_key)
                seen = (nic.traffic.get(proto) or {}) if nic is not None else {}
                if proto == "icmp":
                    tr[proto] = {d: self.traffic_leaf(seen.get(d, 0) if seen else 0, nic) for d in ("inbound", "outbound")}
                else:
                    tr[proto] = {}
                    for p in ports:
                        pn = _port_num(p)
                        rec = seen.get(pn) or {"inbound": 0, "outbound": 0}
                        tr[proto][pn] = {d: self.traffic_leaf(rec[d], nic) for d in ("inbound", "outbound")}
            out["TRAFFIC"] = tr
        if nic is not None and not nic.enabled:
            # a disabled interface of an ON host whose counters for this step are not zero (frames captured before it
            # was disabled within the step)
            if count_off_default({k: v for k, v in out.items() if k == "NMNE"}):
                self.masked.add("disabled-nic-nmne")
            if count_off_default({k: v for k, v in out.items() if k == "TRAFFIC"}):
                self.masked.add("disabled-nic-traffic")
        return out

    @staticmethod
    def traffic_leaf(value: float, nic) -> Leaf:
        if nic is None or value == 0:
            return Leaf(0)
        # the scale has 11 values (0..10, as for links): above 100 % of the NIC's nominal speed the top band is the only
        # encoding inside the declared space
        return Leaf(min(band(value, nic.speed), 10))

    def nmne(self, nic_any, shown: bool, key) -> Dict:
        if not self.capture_nmne or nic_any is None:
            return {"inbound": Leaf(0), "outbound": Leaf(0)}
        d = (nic_any.nmne or {}).get("direction", {})
        tot = tuple(int(d.get(x, {}).get("keywords", {}).get("*", 0)) for x in ("inbound", "outbound"))
        mem = self.nmne_mem.setdefault(key, {"prev": (0, 0), "seen": (0, 0)})
        th = self.th["nmne"]
        out = {}
        for j, direction in enumerate(("inbound", "outbound")):
            if not shown:
                out[direction] = Leaf(0)
            else:
                step_delta = bin3(tot[j] - mem["prev"][j], th)
                since_seen = bin3(tot[j] - mem["seen"][j], th)
                out[direction] = Leaf(step_delta, alt=(since_seen,) if since_seen != step_delta else ())
        mem["prev"] = tot
        if shown:
            mem["seen"] = tot
        return out

    # routers / firewalls .............................................................................................

    @staticmethod
    def _acl_opts(item: Dict, nodes_opts: Dict) -> Dict:
        return {k: (item[k] if item.get(k) is not None else nodes_opts.get(k)) for k in ACL_SHARED}

    def acl_rows(self, acl, a: Dict) -> Dict:
        n = a["num_rules"] or 0
        ips = [str(x) for x in (a["ip_list"] or [])]
        wcs = [str(x) for x in (a["wildcard_list"] or [])]
        ports = [_port_num(x) for x in (a["port_list"] or [])]
        protos = [_proto(x) for x in (a["protocol_list"] or [])]

        def ident(value, table):
            # 0 = empty row, 1 = any / not in the configured list, i+2 = i-th entry of the configured list
            if value is None:
                return 1
            return table.index(value) + 2 if value in table else 1

        rows = {}
        for i in range(n):
            rule = None
            if acl is not None and i < len(acl.acl):
                rule = acl.acl[i]
            pos = Leaf(i, default=i)
            if rule is None:
                rows[i] = {"position": pos, "permission": Leaf(0), "source_ip_id": Leaf(0), "source_wildcard_id": Leaf(0),
                           "source_port_id": Leaf(0), "dest_ip_id": Leaf(0), "dest_wildcard_id": Leaf(0),
                           "dest_port_id": Leaf(0), "protocol_id": Leaf(0)}
                continue

            def s(x):
                return None if x is None else str(x)

            for ip_, wc_ in ((rule.src_ip_address, rule.src_wildcard_mask), (rule.dst_ip_address, rule.dst_wildcard_mask)):
                if ip_ is None and ident(s(wc_), wcs) > 1:
                    self.masked.add("acl-listed-mask-without-address")
                if ip_ is not None and wc_ is None:
                    self.masked.add("acl-address-without-mask")
            rows[i] = {
                "position": pos,
                "permission": Leaf(ACL_PERMISSION[rule.action.name]),
                "source_ip_id": Leaf(ident(s(rule.src_ip_address), ips)),
                "source_wildcard_id": Leaf(ident(s(rule.src_wildcard_mask), wcs)),
                "source_port_id": Leaf(ident(rule.src_port, ports)),
                "dest_ip_id": Leaf(ident(s(rule.dst_ip_address), ips)),
                "dest_wildcard_id": Leaf(ident(s(rule.dst_wildcard_mask), wcs)),
                "dest_port_id": Leaf(ident(rule.dst_port, ports)),
                "protocol_id": Leaf(ident(rule.protocol, protos)),
            }
        return rows

    def router(self, net, r: Dict, nodes_opts: Dict) -> Dict:
        node = self.node_by_name(net, r["hostname"])
        live = node if (node is not None and node.operating_state.name == "ON") else None
        a = self._acl_opts(r, nodes_opts)
        out: Dict[Any, Any] = {"ACL": self.acl_rows(live.acl if live is not None else None, a)}
        nports = r["num_ports"] if r.get("num_ports") is not None else nodes_opts.get("num_ports")
        if nports:
            out["PORTS"] = {i + 1: {"operating_status": self.port(live, i + 1)} for i in range(nports)}
        inc = r["include_users"] if r.get("include_users") is not None else nodes_opts.get("include_users", True)
        if inc is None or inc:
            out["users"] = self.users(live)
        return out

    @staticmethod
    def port(live, num: int) -> Leaf:
        p = live.network_interface.get(num) if live is not None else None
        return Leaf(0 if p is None else (1 if p.enabled else 2))

    def firewall(self, net, f: Dict, nodes_opts: Dict) -> Dict:
        node = self.node_by_name(net, f["hostname"])
        live = node if (node is not None and node.operating_state.name == "ON") else None
        a = self._acl_opts(f, nodes_opts)

        def rows(attr):
            return self.acl_rows(getattr(live, attr) if live is not None else None, a)

        out: Dict[Any, Any] = {
            "PORTS": {i: {"operating_status": self.port(live, i)} for i in (1, 2, 3)},
            "ACL": {
                "INTERNAL": {"INBOUND": rows("internal_inbound_acl"), "OUTBOUND": rows("internal_outbound_acl")},
                "DMZ": {"INBOUND": rows("dmz_inbound_acl"), "OUTBOUND": rows("dmz_outbound_acl")},
                "EXTERNAL": {"INBOUND": rows("external_inbound_acl"), "OUTBOUND": rows("external_outbound_acl")},
            },
        }
        inc = f["include_users"] if f.get("include_users") is not None else nodes_opts.get("include_users", True)
        if inc is None or inc:
            out["users"] = self.users(live)
        return out

    # links ...........................................................................................................

    def links(self, net, opts: Dict) -> Dict:
        out = {}
        for i, ref in enumerate(opts.get("link_references", []) or []):
            out[i + 1] = {"PROTOCOLS": {"ALL": self.link(net, ref)}}
        return out

    @staticmethod
    def link(net, ref: str) -> Leaf:
        try:
            a, b = ref.split("<->")
            ha, pa = a.rsplit(":eth-", 1)
            hb, pb = b.rsplit(":eth-", 1)
            want = {(ha, int(pa)), (hb, int(pb))}
        except ValueError:
            return Leaf(0)
        for l in net.links.values():
            ends = set()
            for ep in (l.endpoint_a, l.endpoint_b):
                n = ep._connected_node
                ends.add((n.config.hostname if n is not None else None, ep.port_num))
            if ends == want:
                if l.current_load == 0:
                    return Leaf(0)
                return Leaf(min(band(l.current_load, l.bandwidth), 10))
        return Leaf(0)


# ---------------------------------------------------------------------------------------------------------------------
# comparison


def compare(exp, obs, path: List[Any], out: List[Tuple[str, List[Any], Any, Any, str]]):
    """Append (kind, path, expected, observed, tag) for every disagreement. kind in mismatch / missing / extra / shape."""
    if isinstance(exp, Opt):
        if obs is _ABSENT:
            return
        return compare(exp.tree, obs, path, out)
    if obs is _ABSENT:
        out.append(("missing", path, _summ(exp), None, ""))
        return
    if isinstance(exp, Leaf):
        if isinstance(obs, dict):
            out.append(("shape", path, exp.ok, "<dict>", exp.tag))
            return
        try:
            v = int(obs)
            same_num = float(obs) == v
        except (TypeError, ValueError):
            out.append(("shape", path, exp.ok, repr(obs), exp.tag))
            return
        if not same_num or v not in exp.ok:
            out.append(("mismatch", path, exp.ok, obs, exp.tag))
        return
    # dict
    if not isinstance(obs, dict):
        out.append(("shape", path, "<dict>", repr(obs), ""))
        return
    for k, sub in exp.items():
        compare(sub, obs.get(k, _ABSENT), path + [k], out)
    for k in obs:
        if k not in exp:
            out.append(("extra", path + [k], None, "<present>", ""))


class _Absent:
    def __repr__(self):
        return "<absent>"


_ABSENT = _Absent()


def _summ(exp):
    if isinstance(exp, Leaf):
        return exp.ok
    return "<subtree>"


def count_off_default(exp) -> int:
    if isinstance(exp, Opt):
        return count_off_default(exp.tree)
    if isinstance(exp, Leaf):
        return 0 if exp.ok[0] == exp.default else 1
    return sum(count_off_default(v) for v in exp.values())


def count_leaves(exp) -> int:
    if isinstance(exp, Opt):
        return count_leaves(exp.tree)
    if isinstance(exp, Leaf):
        return 1
    return sum(count_leaves(v) for v in exp.values())


def plain(exp):
    """Expected tree as plain ints (first accepted value) for printing."""
    if isinstance(exp, Opt):
        return plain(exp.tree)
    if isinstance(exp, Leaf):
        return exp.ok[0] if len(exp.ok) == 1 else list(exp.ok)
    return {k: plain(v) for k, v in exp.items()}
