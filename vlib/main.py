"""./check <ID> [--tier quick|thorough] [--replay file]  — exit 0 held / 1 violation / 2 harness error."""
from __future__ import annotations

import argparse
import atexit
import importlib
import os
import shutil
import sys
import traceback


def main() -> int:
    ap = argparse.ArgumentParser()
    ap.add_argument("prop")
    ap.add_argument("--tier", default=os.environ.get("VERIF_TIER", "quick"), choices=["quick", "thorough"])
    ap.add_argument("--replay", default=None)
    a = ap.parse_args()
    seed = int(os.environ.get("VERIF_SEED", "1"))
    verif = os.path.dirname(os.path.dirname(os.path.abspath(__file__)))

    # output isolation: PrimAITE writes under Path.home()/primaite at import time
    work = os.path.join(verif, ".work", f"{a.prop}-{os.getpid()}")
    home = os.path.join(work, "home")
    os.makedirs(home, exist_ok=True)
    os.environ["HOME"] = home
    os.environ["XDG_DATA_HOME"] = os.path.join(home, ".local/share")
    os.environ["XDG_CONFIG_HOME"] = os.path.join(home, ".config")
    os.environ["XDG_STATE_HOME"] = os.path.join(home, ".local/state")
    os.environ["XDG_CACHE_HOME"] = os.path.join(home, ".cache")
    os.environ["VERIF_WORK"] = work
    parent_pid = os.getpid()

    def _cleanup():
        if os.getpid() == parent_pid:
            shutil.rmtree(work, ignore_errors=True)

    atexit.register(_cleanup)

    # tree under test: /repo/src by editable install; VERIF_REPO=<dir> puts another tree first (mutation protocol)
    alt = os.environ.get("VERIF_REPO")
    if alt:
        sys.path.insert(0, os.path.join(alt, "src"))
    try:
        import logging

        import primaite  # noqa: F401
        import primaite.game.game  # noqa: F401  (loads every simulator module, so entropy.install() can patch them all)
        import primaite.session.environment  # noqa: F401

        if alt and not primaite.__file__.startswith(os.path.abspath(alt)):
            print(f"harness: VERIF_REPO set but primaite imported from {primaite.__file__}", file=sys.stderr)
            return 2
        logging.disable(logging.CRITICAL)
        from . import entropy, harness

        mod = importlib.import_module(f"vlib.checks.{a.prop.lower()}")
        entropy.install()
        rc = harness.run_check(mod, a.tier, seed, a.replay)
        return rc
    except SystemExit:
        raise
    except BaseException:
        print("harness error:\n" + traceback.format_exc(), file=sys.stderr)
        return 2


if __name__ == "__main__":
    sys.stdout.reconfigure(line_buffering=True)
    sys.exit(main())
