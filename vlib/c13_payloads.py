"""C13 helper: one well-formed network payload per shipped software type, sent by a peer host.

`send(peer, target_ip, sw_type)` makes the peer host emit the kind of payload the software type `sw_type` is written to
receive (the request its server side answers, or the reply its client side consumes), addressed to the target host at the
software's own port/protocol. Nothing on the target host is touched. Types without a network port (port NONE) return None.
"""
from __future__ import annotations

from datetime import datetime
from ipaddress import IPv4Address
from typing import Optional

# software types that never receive network payloads through a port of their own
NO_NETWORK = ("user-manager", "user-session-manager", "ransomware-script", "data-manipulation-bot")


def _raw(peer, target_ip: str, payload, port, protocol) -> bool:
    return bool(
        peer.software_manager.send_payload_to_session_manager(
            payload=payload, dest_ip_address=IPv4Address(target_ip), dest_port=port, ip_protocol=protocol
        )
    )


def send(peer, target_ip: str, sw_type: str) -> Optional[bool]:
    """Returns None when the type has no network payload, else whether the peer put a frame on the wire."""
    from primaite.utils.validation.ip_protocol import PROTOCOL_LOOKUP
    from primaite.utils.validation.port import PORT_LOOKUP

    TCP, UDP = PROTOCOL_LOOKUP["TCP"], PROTOCOL_LOOKUP["UDP"]
    if sw_type in NO_NETWORK:
        return None
    if sw_type == "icmp":
        # one echo request, formed by the peer's own ICMP service
        return bool(peer.software_manager.icmp.ping(IPv4Address(target_ip), 1)) or True
    if sw_type == "arp":
        from primaite.simulator.network.protocols.arp import ARPPacket

        nic = peer.network_interface[1]
        pkt = ARPPacket(
            sender_ip_address=nic.ip_address, sender_mac_addr=nic.mac_address, target_ip_address=IPv4Address(target_ip)
        )
        return bool(
            peer.session_manager.receive_payload_from_software_manager(
                payload=pkt, dst_ip_address=IPv4Address(target_ip), dst_port=PORT_LOOKUP["ARP"], ip_protocol=UDP
            )
        )
    if sw_type == "nmap":
        nmap = peer.software_manager.software["nmap"]
        nmap.port_scan(target_ip_address=IPv4Address(target_ip), target_protocol=TCP, target_port=PORT_LOOKUP["SSH"],
                       show=False)
        return True
    if sw_type == "web-server":
        from primaite.simulator.network.protocols.http import HttpRequestMethod, HttpRequestPacket

        return _raw(peer, target_ip, HttpRequestPacket(request_method=HttpRequestMethod.GET,
                                                       request_url=f"http://{target_ip}/"), PORT_LOOKUP["HTTP"], TCP)
    if sw_type == "web-browser":
        from primaite.simulator.network.protocols.http import HttpResponsePacket, HttpStatusCode

        return _raw(peer, target_ip, HttpResponsePacket(status_code=HttpStatusCode.OK), PORT_LOOKUP["HTTP"], TCP)
    if sw_type in ("dns-server", "dns-client"):
        from primaite.simulator.network.protocols.dns import DNSPacket, DNSReply, DNSRequest

        req = DNSRequest(domain_name_request="c13.example")
        pkt = DNSPacket(dns_request=req) if sw_type == "dns-server" else DNSPacket(
            dns_request=req, dns_reply=DNSReply(domain_name_ip_address=IPv4Address("192.168.1.99")))
        return _raw(peer, target_ip, pkt, PORT_LOOKUP["DNS"], TCP)
    if sw_type in ("ntp-server", "ntp-client"):
        from primaite.simulator.network.protocols.ntp import NTPPacket, NTPReply

        pkt = NTPPacket() if sw_type == "ntp-server" else NTPPacket(ntp_reply=NTPReply(ntp_datetime=datetime(2025, 1, 1)))
        return _raw(peer, target_ip, pkt, PORT_LOOKUP["NTP"], UDP)
    if sw_type in ("ftp-server", "ftp-client"):
        from primaite.simulator.network.protocols.ftp import FTPCommand, FTPPacket, FTPStatusCode

        pkt = FTPPacket(ftp_command=FTPCommand.PORT, ftp_command_args=PORT_LOOKUP["FTP"])
        if sw_type == "ftp-client":
            pkt.status_code = FTPStatusCode.OK
        return _raw(peer, target_ip, pkt, PORT_LOOKUP["FTP"], TCP)
    if sw_type == "database-service":
        return _raw(peer, target_ip, {"type": "connect_request", "password": None, "connection_request_id": "c13-req"},
                    PORT_LOOKUP["POSTGRES_SERVER"], TCP)
    if sw_type in ("database-client", "dos-bot"):
        return _raw(peer, target_ip, {"type": "sql", "uuid": "c13-q", "status_code": 200, "data": {}},
                    PORT_LOOKUP["POSTGRES_SERVER"], TCP)
    if sw_type == "terminal":
        from primaite.simulator.network.protocols.ssh import (
            SSHConnectionMessage,
            SSHPacket,
            SSHTransportMessage,
            SSHUserCredentials,
        )

        pkt = SSHPacket(
            transport_message=SSHTransportMessage.SSH_MSG_USERAUTH_REQUEST,
            connection_message=SSHConnectionMessage.SSH_MSG_CHANNEL_OPEN,
            user_account=SSHUserCredentials(username="admin", password="admin"),
            connection_request_uuid="c13-req",
        )
        return _raw(peer, target_ip, pkt, PORT_LOOKUP["SSH"], TCP)
    if sw_type == "c2-beacon":
        # in protocol a beacon only ever hears from the C2 server it has connected to: the peer's c2-server sends it a command
        # (refused by the server itself, i.e. nothing is sent, while no beacon has connected)
        if "c2-server" not in peer.software_manager.software:
            return False
        r = peer.apply_request(["application", "c2-server", "ransomware_launch"])
        return r.status == "success" or "no response" in str(r.data)
    if sw_type == "c2-server":
        from primaite.simulator.network.protocols.masquerade import C2Packet
        from primaite.simulator.system.applications.red_applications.c2.abstract_c2 import C2Payload

        pkt = C2Packet(masquerade_protocol=TCP, masquerade_port=PORT_LOOKUP["HTTP"], keep_alive_frequency=5,
                       payload_type=C2Payload.KEEP_ALIVE)
        return _raw(peer, target_ip, pkt, PORT_LOOKUP["HTTP"], TCP)
    raise ValueError(f"no payload defined for software type {sw_type}")
