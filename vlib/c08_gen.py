"""C08 generators: topology specs (families LAN / ROUTED / SHARED / MULTIHOME / DMZ / WIFI / LOOP / RING) and operation lists.

`avoid_storm=True` is the exclusion by construction used while finding C08-arp-request-loop (routers route link-layer
broadcasts) is open: no unowned next hops / pinged addresses on a segment shared by two routing devices, two wireless
routers instead of up to three, and at most two hosts on a LAN that has a routing device (with three, the router's
forwarded-and-rewritten copies of flooded ARP requests corrupt switch tables and duplicate replies, so plain exchanges
fail under signatures too generic to list).
`avoid_nh_host=True` is the exclusion used while C08-host-accepts-foreign-ip is open: no route whose next hop is a host
(the host's services act on the foreign packets — answering, looping, and through the resulting hairpins corrupting
switch tables — again under signatures too generic to list).

Construction-based: addresses come from a subnet plan, so every generated scenario is one the loader accepts.
Address plan: LAN l of routing device i is 10.(i+1).(l+1).0/24 (device .1, hosts .10+) or 10.(i+1).(l+1).16/28
(device .17, hosts .18+); transit link t is 10.200.(t+1).0/{24,28,30} (left .1, right .2); wireless backbone is
10.250.0.0/24.
"""
from __future__ import annotations

from typing import Dict, List, Tuple

from hypothesis import strategies as st

from .c08_net import Ref


def _lan_addr(i: int, l: int, plen: int) -> Tuple[str, str, List[str], str]:
    """(network address, device address, host addresses, an unused address) of LAN l behind device i"""
    base = f"10.{i + 1}.{l + 1}."
    if plen == 24:
        return base + "0", base + "1", [base + str(10 + k) for k in range(4)], base + "99"
    return base + "16", base + "17", [base + str(18 + k) for k in range(4)], base + "29"


class _B:
    """spec builder"""

    def __init__(self, family: str, dur: int):
        self.spec = {"family": family, "dur": dur, "nodes": [], "links": []}
        self.swp: Dict[str, int] = {}
        self.nsw = 0
        self.nh = 0

    def switch(self) -> str:
        name = f"s{self.nsw}"
        self.nsw += 1
        self.spec["nodes"].append({"k": "switch", "name": name})
        self.swp[name] = 0
        return name

    def sw_port(self, sw: str) -> int:
        self.swp[sw] += 1
        assert self.swp[sw] <= 8
        return self.swp[sw]

    def host(self, ip: str, plen: int, gw, dns: bool) -> str:
        name = f"h{self.nh}"
        self.nh += 1
        self.spec["nodes"].append({"k": "host", "name": name, "ip": ip, "plen": plen, "gw": gw, "dns": dns})
        return name

    def link(self, a, ap, b, bp):
        self.spec["links"].append([a, ap, b, bp])

    def attach_lan(self, draw, dev: str, port: int, dev_ip: str, host_ips: List[str], plen: int, unused: str,
                   n_hosts: int, allow_direct: bool = True):
        """hosts of one LAN behind interface (dev, port); returns host names"""
        names = []
        gws = []
        for k in range(n_hosts):
            g = draw(st.sampled_from([dev_ip] * 8 + [None, unused]))
            gws.append(g)
        if n_hosts == 1 and allow_direct and draw(st.booleans()):
            h = self.host(host_ips[0], plen, gws[0], draw(st.booleans()))
            self.link(dev, port, h, 1)
            return [h]
        sw = self.switch()
        self.link(dev, port, sw, self.sw_port(sw))
        sw2 = None
        if n_hosts >= 2 and draw(st.integers(0, 3)) == 0:
            sw2 = self.switch()
            self.link(sw, self.sw_port(sw), sw2, self.sw_port(sw2))
        for k in range(n_hosts):
            h = self.host(host_ips[k], plen, gws[k], draw(st.booleans()))
            s = sw2 if (sw2 and k % 2 == 1) else sw
            self.link(s, self.sw_port(s), h, 1)
            names.append(h)
        return names


def _declare_off(spec: Dict, draw, kinds=("host", "router", "switch", "firewall", "wrouter"), p_any: int = 3):
    """with probability 1/p_any, declare one or two nodes `operating_state: OFF` (they have never been up)"""
    if draw(st.integers(0, p_any - 1)) != 0:
        return
    cands = [n for n in spec["nodes"] if n["k"] in kinds]
    for _ in range(draw(st.sampled_from([1, 1, 2]))):
        n = cands[draw(st.integers(0, len(cands) - 1))]
        # hosts and routing devices mostly; a switch that is off takes its whole LAN down
        if n["k"] == "switch" and draw(st.booleans()):
            continue
        n["off"] = True


def _fix_roles(spec: Dict, draw):
    """at least one DNS client and one DNS server when there are two hosts or more"""
    hosts = [n for n in spec["nodes"] if n["k"] == "host"]
    if len(hosts) >= 2:
        if not any(h["dns"] for h in hosts):
            hosts[draw(st.integers(0, len(hosts) - 1))]["dns"] = True
        if all(h["dns"] for h in hosts):
            hosts[draw(st.integers(0, len(hosts) - 1))]["dns"] = False


@st.composite
def lan_spec(draw, avoid_storm=False):
    b = _B("lan", draw(st.sampled_from([1, 2])))
    plen = draw(st.sampled_from([24, 28]))
    _net, dev_ip, hips, unused = _lan_addr(0, 0, plen)
    n = draw(st.sampled_from([2, 3, 3, 4, 4]))
    sws = [b.switch()]
    if draw(st.booleans()):
        sws.append(b.switch())
        b.link(sws[0], b.sw_port(sws[0]), sws[1], b.sw_port(sws[1]))
    for k in range(n):
        gw = draw(st.sampled_from([None, dev_ip, unused]))
        h = b.host(hips[k], plen, gw, draw(st.booleans()))
        s = sws[draw(st.integers(0, len(sws) - 1))]
        b.link(s, b.sw_port(s), h, 1)
    _fix_roles(b.spec, draw)
    return b.spec


MUTATIONS = ["drop", "decoy_specific", "decoy_specific", "decoy_general", "metric_worse", "metric_better", "tie",
             "nh_host", "default_dead", "default_dead"]


@st.composite
def routed_spec(draw, avoid_storm=False, avoid_nh_host=False, nr=None):
    b = _B("routed", draw(st.sampled_from([1, 2])))
    nr = nr or draw(st.sampled_from([1, 2, 2, 3, 3]))
    routers = []
    lans: List[Dict] = []  # {"r": i, "net":, "plen":, "hosts": [names], "host_ips": [...], "unused":}
    for i in range(nr):
        r = {"k": "router", "name": f"r{i}", "ifs": [], "routes": [], "default": None}
        routers.append(r)
        b.spec["nodes"].append(r)
        nl = draw(st.integers(2, 3)) if nr == 1 else draw(st.integers(1, 2))
        for l in range(nl):
            plen = draw(st.sampled_from([24, 28]))
            net, dev_ip, hips, unused = _lan_addr(i, l, plen)
            r["ifs"].append([l + 1, dev_ip, plen])
            nh = draw(st.sampled_from([1, 2] if avoid_storm else [1, 1, 2, 2, 3]))
            names = b.attach_lan(draw, r["name"], l + 1, dev_ip, hips, plen, unused, nh)
            lans.append({"r": i, "net": net, "plen": plen, "hosts": names, "host_ips": hips[:nh], "unused": unused,
                         "dev_ip": dev_ip})
    transits = []
    for t in range(nr - 1):
        plen = draw(st.sampled_from([24, 28, 30]))
        base = f"10.200.{t + 1}."
        routers[t]["ifs"].append([5, base + "1", plen])
        routers[t + 1]["ifs"].append([4, base + "2", plen])
        if draw(st.booleans()):
            b.link(f"r{t}", 5, f"r{t + 1}", 4)
        else:
            sw = b.switch()
            b.link(f"r{t}", 5, sw, b.sw_port(sw))
            b.link(f"r{t + 1}", 4, sw, b.sw_port(sw))
        transits.append({"left": base + "1", "right": base + "2", "plen": plen,
                         "dead": base + "3" if plen != 30 else None})
    # correct routing, in a generated style
    for i in range(nr):
        r = routers[i]
        sides = []
        if i > 0:
            sides.append(("L", transits[i - 1]["left"], list(range(0, i))))
        if i < nr - 1:
            sides.append(("R", transits[i]["right"], list(range(i + 1, nr))))
        default_side = draw(st.sampled_from([None] + [s[0] for s in sides])) if sides else None
        for side, nh, rs in sides:
            if side == default_side:
                r["default"] = nh
                continue
            style = draw(st.sampled_from(["specific", "specific", "agg"]))
            for j in rs:
                if style == "agg":
                    r["routes"].append([f"10.{j + 1}.0.0", 16, nh, draw(st.sampled_from([0, 0, 1, 5]))])
                else:
                    for lan in lans:
                        if lan["r"] == j:
                            addr = lan["net"] if draw(st.booleans()) else lan["host_ips"][0]  # host bits as shipped
                            r["routes"].append([addr, lan["plen"], nh, draw(st.sampled_from([0, 0, 1, 5]))])
    # mutations
    muts = []
    if nr > 1:
        for _ in range(draw(st.sampled_from([0, 1, 1, 2, 2, 3]))):
            m = draw(st.sampled_from([x for x in MUTATIONS if not (avoid_nh_host and x == "nh_host")]))
            i = draw(st.integers(0, nr - 1))
            r = routers[i]
            remote = [lan for lan in lans if lan["r"] != i]
            own = [lan for lan in lans if lan["r"] == i]
            victim = remote[draw(st.integers(0, len(remote) - 1))]
            # a wrong next hop: unused address on an attached network, or the neighbour on the other side
            wrong = [own[0]["unused"]]
            if i > 0 and victim["r"] > i:
                wrong.append(transits[i - 1]["left"])
            if i < nr - 1 and victim["r"] < i:
                wrong.append(transits[i]["right"])
            for t in ([transits[i - 1]] if i > 0 else []) + ([transits[i]] if i < nr - 1 else []):
                if t["dead"] and not avoid_storm:
                    wrong.append(t["dead"])  # an unowned address on a segment shared by two routers
            bad_nh = draw(st.sampled_from(wrong))
            correct = transits[i]["right"] if victim["r"] > i else transits[i - 1]["left"]
            vip = victim["host_ips"][0]
            if m == "drop":
                if r["routes"]:
                    r["routes"].pop(draw(st.integers(0, len(r["routes"]) - 1)))
            elif m == "decoy_specific":
                r["routes"].append([vip, draw(st.sampled_from([28, 32])), bad_nh, draw(st.sampled_from([0, 1, 5]))])
            elif m == "decoy_general":
                r["routes"].append(["10.0.0.0", 8, bad_nh, 0])
            elif m == "metric_worse":
                r["routes"].append([victim["net"], victim["plen"], correct, 1])
                r["routes"].append([victim["net"], victim["plen"], bad_nh, 5])
            elif m == "metric_better":
                r["routes"].append([victim["net"], victim["plen"], correct, 5])
                r["routes"].append([victim["net"], victim["plen"], bad_nh, 1])
            elif m == "tie":
                r["routes"].append([victim["net"], victim["plen"], correct, 1])
                r["routes"].append([victim["net"], victim["plen"], bad_nh, 1])
            elif m == "nh_host":
                r["routes"].append([vip, 32, own[0]["host_ips"][0], 0])
            elif m == "default_dead":
                # default route through an address nobody owns on an attached network (it has never answered ARP)
                dead = [own[0]["unused"]]
                if not avoid_storm:
                    dead += [t_["dead"] for t_ in ([transits[i - 1]] if i > 0 else []) +
                             ([transits[i]] if i < nr - 1 else []) if t_["dead"]]
                r["default"] = draw(st.sampled_from(dead))
            muts.append(m)
            r["routes"] = list(draw(st.permutations(r["routes"])))
    b.spec["muts"] = muts
    _fix_roles(b.spec, draw)
    _declare_off(b.spec, draw)
    return b.spec


@st.composite
def shared_spec(draw, avoid_storm=False):
    """One switched segment 10.50.0.0/{24,28} that carries two or three routing devices AND hosts; every device also
    has stub LANs.  A host on the shared segment uses one device as gateway while other networks are reached through
    another device on the same segment, so the gateway must forward the packet back out of the port it arrived on."""
    b = _B("shared", draw(st.sampled_from([1, 2])))
    plen = draw(st.sampled_from([24, 28]))
    nd = draw(st.sampled_from([2, 3, 3]))
    seg_sw = b.switch()
    devs = []
    lans = []
    for i in range(nd):
        fw = (i == nd - 1) and draw(st.booleans())
        seg_ip = f"10.50.0.{i + 1}"
        if fw:
            # shared segment on the internal (2) or external (1) port; the other one carries a stub LAN
            seg_port = draw(st.sampled_from([1, 2]))
            d = {"k": "firewall", "name": f"r{i}", "ifs": [[seg_port, seg_ip, plen]], "routes": [], "default": None}
            stub_ports = [3 - seg_port] + ([3] if draw(st.booleans()) else [])
        else:
            seg_port = 5
            d = {"k": "router", "name": f"r{i}", "ifs": [[5, seg_ip, plen]], "routes": [], "default": None}
            stub_ports = list(range(1, draw(st.integers(1, 2)) + 1))
        b.spec["nodes"].append(d)
        b.link(d["name"], seg_port, seg_sw, b.sw_port(seg_sw))
        for l, port in enumerate(stub_ports):
            lp = draw(st.sampled_from([24, 28]))
            net, dev_ip, hips, unused = _lan_addr(i, l, lp)
            d["ifs"].append([port, dev_ip, lp])
            nh = draw(st.sampled_from([1, 1, 2]))
            b.attach_lan(draw, d["name"], port, dev_ip, hips, lp, unused, nh)
            lans.append({"r": i, "net": net, "plen": lp, "host_ips": hips[:nh]})
        devs.append(d)
    # hosts on the shared segment, each with one of the devices as gateway
    for k in range(draw(st.integers(1, 3))):
        gw = f"10.50.0.{draw(st.integers(1, nd))}"
        h = b.host(f"10.50.0.{10 + k}", plen, gw, draw(st.booleans()))
        b.link(seg_sw, b.sw_port(seg_sw), h, 1)
    # routing: every device reaches the others' stub LANs through their address on the shared segment
    for i, d in enumerate(devs):
        others = [j for j in range(nd) if j != i]
        dflt = draw(st.sampled_from([None] + others))
        for j in others:
            nh_ip = f"10.50.0.{j + 1}"
            if j == dflt:
                d["default"] = nh_ip
                continue
            if draw(st.booleans()):
                d["routes"].append([f"10.{j + 1}.0.0", 16, nh_ip, draw(st.sampled_from([0, 1, 5]))])
            else:
                for lan in lans:
                    if lan["r"] == j:
                        addr = lan["net"] if draw(st.booleans()) else lan["host_ips"][0]
                        d["routes"].append([addr, lan["plen"], nh_ip, draw(st.sampled_from([0, 1, 5]))])
        if d["routes"] and draw(st.integers(0, 5)) == 0:
            d["routes"].pop(draw(st.integers(0, len(d["routes"]) - 1)))
    # equal-prefix alternatives with different metrics, both next hops alive: device i (the firewall when there is one)
    # also reaches a LAN of j through the third device k; the cheaper of the two must carry the packet, whichever is
    # listed first.  k keeps its own direct route to j, so both ways deliver and only the path tells them apart.
    muts = []
    if nd == 3:
        for i in ([nd - 1] if draw(st.booleans()) else []) + [draw(st.integers(0, nd - 1))]:
            d = devs[i]
            j = draw(st.sampled_from([x for x in range(nd) if x != i]))
            k = next(x for x in range(nd) if x not in (i, j))
            tl = [lan_ for lan_ in lans if lan_["r"] == j]
            if not tl:
                continue
            lan_ = tl[draw(st.integers(0, len(tl) - 1))]
            m_direct, m_detour = draw(st.sampled_from([(1, 5), (5, 1), (0, 1), (1, 0), (5, 0)]))
            pair = [[lan_["net"], lan_["plen"], f"10.50.0.{j + 1}", m_direct],
                    [lan_["net"], lan_["plen"], f"10.50.0.{k + 1}", m_detour]]
            if draw(st.booleans()):
                pair.reverse()
            d["routes"] = pair + d["routes"] if draw(st.booleans()) else d["routes"] + pair
            muts.append("equal_prefix_metrics:" + d["k"])
    for d in devs:
        if not any(m_.endswith(d["k"]) for m_ in muts) or draw(st.integers(0, 3)) == 0:
            d["routes"] = list(draw(st.permutations(d["routes"])))
    b.spec["muts"] = muts
    _fix_roles(b.spec, draw)
    _declare_off(b.spec, draw, p_any=4)
    return b.spec


@st.composite
def multihome_spec(draw, avoid_storm=False):
    """A router joining LANs A and B (optionally C, optionally a second router with a remote LAN) and a two-NIC host:
    NIC 1 on A together with its default gateway, NIC 2 on B next to its peers (the `security_suite` shape of the shipped
    data_manipulation scenario).  While NIC 2 is down the host must reach B through the gateway on NIC 1."""
    b = _B("multihome", draw(st.sampled_from([1, 2])))
    r0 = {"k": "router", "name": "r0", "ifs": [], "routes": [], "default": None}
    b.spec["nodes"].append(r0)
    nl = draw(st.sampled_from([2, 2, 3]))
    lan = []
    for l in range(nl):
        plen = draw(st.sampled_from([24, 28]))
        net, dev_ip, hips, unused = _lan_addr(0, l, plen)
        r0["ifs"].append([l + 1, dev_ip, plen])
        sw = b.switch()
        b.link("r0", l + 1, sw, b.sw_port(sw))
        lan.append({"sw": sw, "dev": dev_ip, "hips": hips, "plen": plen, "net": net, "unused": unused})
    A, B = lan[0], lan[1]
    m = b.host(A["hips"][0], A["plen"], A["dev"], draw(st.booleans()))
    b.spec["nodes"][-1]["nic2"] = [B["hips"][3], B["plen"]]
    b.link(A["sw"], b.sw_port(A["sw"]), m, 1)
    b.link(B["sw"], b.sw_port(B["sw"]), m, 2)
    peers = []
    for k in range(draw(st.integers(1, 2))):
        h = b.host(B["hips"][k], B["plen"], draw(st.sampled_from([B["dev"]] * 6 + [None])), draw(st.booleans()))
        b.link(B["sw"], b.sw_port(B["sw"]), h, 1)
        peers.append(h)
    if draw(st.booleans()):
        h = b.host(A["hips"][1], A["plen"], A["dev"], draw(st.booleans()))
        b.link(A["sw"], b.sw_port(A["sw"]), h, 1)
    if nl == 3:
        h = b.host(lan[2]["hips"][0], lan[2]["plen"], lan[2]["dev"], draw(st.booleans()))
        b.link(lan[2]["sw"], b.sw_port(lan[2]["sw"]), h, 1)
    if draw(st.integers(0, 2)) == 0:
        tpl = draw(st.sampled_from([24, 30]))
        r0["ifs"].append([5, "10.200.1.1", tpl])
        r1 = {"k": "router", "name": "r1", "ifs": [[4, "10.200.1.2", tpl]], "routes": [], "default": None}
        b.spec["nodes"].append(r1)
        b.link("r0", 5, "r1", 4)
        plen = draw(st.sampled_from([24, 28]))
        net, dev_ip, hips, unused = _lan_addr(1, 0, plen)
        r1["ifs"].append([1, dev_ip, plen])
        b.attach_lan(draw, "r1", 1, dev_ip, hips, plen, unused, 1)
        r0["routes"].append([net, plen, "10.200.1.2", 0])
        if draw(st.booleans()):
            r1["default"] = "10.200.1.1"
        else:
            r1["routes"].append(["10.1.0.0", 16, "10.200.1.1", 0])
    b.spec["multihomed"] = [[m, peers]]
    _fix_roles(b.spec, draw)
    return b.spec


@st.composite
def dmz_spec(draw, avoid_storm=False):
    b = _B("dmz", draw(st.sampled_from([1, 2])))
    fw = {"k": "firewall", "name": "fw", "ifs": [], "routes": [], "default": None}
    b.spec["nodes"].append(fw)
    # external LAN behind port 1, internal side behind port 2 (LAN or inner router), optional DMZ behind port 3
    plen = draw(st.sampled_from([24, 28]))
    _n, dev, hips, unused = _lan_addr(0, 0, plen)
    fw["ifs"].append([1, dev, plen])
    b.attach_lan(draw, "fw", 1, dev, hips, plen, unused, draw(st.sampled_from([1, 2] if avoid_storm else [1, 2, 2, 3])))
    if draw(st.booleans()):
        plen = draw(st.sampled_from([24, 28]))
        _n, dev, hips, unused = _lan_addr(0, 2, plen)
        fw["ifs"].append([3, dev, plen])
        b.attach_lan(draw, "fw", 3, dev, hips, plen, unused, draw(st.integers(1, 2)))
    if draw(st.booleans()):
        plen = draw(st.sampled_from([24, 28]))
        _n, dev, hips, unused = _lan_addr(0, 1, plen)
        fw["ifs"].append([2, dev, plen])
        b.attach_lan(draw, "fw", 2, dev, hips, plen, unused, draw(st.sampled_from([1, 2] if avoid_storm else [1, 2, 2, 3])))
    else:
        tpl = draw(st.sampled_from([24, 28, 30]))
        fw["ifs"].append([2, "10.200.1.1", tpl])
        r = {"k": "router", "name": "r1", "ifs": [[4, "10.200.1.2", tpl]], "routes": [], "default": None}
        b.spec["nodes"].append(r)
        if draw(st.booleans()):
            b.link("fw", 2, "r1", 4)
        else:
            sw = b.switch()
            b.link("fw", 2, sw, b.sw_port(sw))
            b.link("r1", 4, sw, b.sw_port(sw))
        for l in range(draw(st.integers(1, 2))):
            plen = draw(st.sampled_from([24, 28]))
            net, dev, hips, unused = _lan_addr(1, l, plen)
            r["ifs"].append([l + 1, dev, plen])
            b.attach_lan(draw, "r1", l + 1, dev, hips, plen, unused, draw(st.integers(1, 2)))
            if draw(st.integers(0, 5)) > 0:
                good = [net, plen, "10.200.1.2", draw(st.sampled_from([0, 1]))]
                if tpl != 30 and not avoid_storm and draw(st.booleans()):
                    # same prefix, worse metric, next hop nobody owns: must lose whichever is listed first
                    bad = [net, plen, "10.200.1.3", good[3] + draw(st.sampled_from([1, 4]))]
                    fw["routes"] += [bad, good] if draw(st.booleans()) else [good, bad]
                    b.spec.setdefault("muts", []).append("equal_prefix_metrics:firewall")
                else:
                    fw["routes"].append(good)
        if draw(st.booleans()):
            r["default"] = "10.200.1.1"
        else:
            for p, ip, pl in fw["ifs"]:
                if p != 2:
                    a = ip.rsplit(".", 1)[0] + (".0" if pl == 24 else ".16")
                    r["routes"].append([a, pl, "10.200.1.1", 0])
    _fix_roles(b.spec, draw)
    _declare_off(b.spec, draw, p_any=4)
    return b.spec


@st.composite
def wifi_spec(draw, avoid_storm=False):
    b = _B("wifi", draw(st.sampled_from([1, 2])))
    nw = 2 if avoid_storm else draw(st.sampled_from([2, 2, 3]))  # three routers share the wireless segment
    lans = []
    for i in range(nw):
        plen = draw(st.sampled_from([24, 28]))
        net, dev, hips, unused = _lan_addr(i, 0, plen)
        w = {"k": "wrouter", "name": f"w{i}", "ifs": [[1, f"10.250.0.{i + 1}", 24], [2, dev, plen]], "routes": [],
             "default": None, "freq": draw(st.sampled_from(["WIFI_2_4"] * 5 + ["WIFI_5"]))}
        b.spec["nodes"].append(w)
        b.attach_lan(draw, w["name"], 2, dev, hips, plen, unused, draw(st.sampled_from([1, 2] if avoid_storm else [1, 2, 2, 3])))
        lans.append((net, plen))
    for i in range(nw):
        w = [n for n in b.spec["nodes"] if n["name"] == f"w{i}"][0]
        for j in range(nw):
            if j != i and draw(st.integers(0, 7)) > 0:
                w["routes"].append([lans[j][0], lans[j][1], f"10.250.0.{j + 1}", draw(st.sampled_from([0, 1]))])
    _fix_roles(b.spec, draw)
    return b.spec


@st.composite
def loop_spec(draw, avoid_storm=False):
    """two or three routers; the last two have default routes pointing at each other and no specific route"""
    b = _B("loop", 1)
    nr = draw(st.sampled_from([2, 2, 3]))
    routers = []
    for i in range(nr):
        r = {"k": "router", "name": f"r{i}", "ifs": [], "routes": [], "default": None}
        routers.append(r)
        b.spec["nodes"].append(r)
        plen = draw(st.sampled_from([24, 28]))
        net, dev, hips, unused = _lan_addr(i, 0, plen)
        r["ifs"].append([1, dev, plen])
        b.attach_lan(draw, r["name"], 1, dev, hips, plen, unused, draw(st.integers(1, 2)))
    for t in range(nr - 1):
        plen = draw(st.sampled_from([24, 30]))
        base = f"10.200.{t + 1}."
        routers[t]["ifs"].append([5, base + "1", plen])
        routers[t + 1]["ifs"].append([4, base + "2", plen])
        if draw(st.booleans()):
            b.link(f"r{t}", 5, f"r{t + 1}", 4)
        else:
            sw = b.switch()
            b.link(f"r{t}", 5, sw, b.sw_port(sw))
            b.link(f"r{t + 1}", 4, sw, b.sw_port(sw))
    for i in range(nr):
        routers[i]["default"] = f"10.200.{i + 1}.2" if i < nr - 1 else f"10.200.{i}.1"
    if nr == 3:
        routers[1]["default"] = "10.200.2.2"  # r1 <-> r2 loop; r0 -> r1
        routers[1]["routes"].append(["10.1.0.0", 16, "10.200.1.1", 0])
    _fix_roles(b.spec, draw)
    _declare_off(b.spec, draw)
    return b.spec


@st.composite
def ring_spec(draw, avoid_storm=False):
    """three switches in a ring (a layer-2 loop): only the termination / TTL / addressee monitors apply"""
    b = _B("ring", 1)
    sws = [b.switch() for _ in range(3)]
    for i in range(3):
        a, c = sws[i], sws[(i + 1) % 3]
        b.link(a, b.sw_port(a), c, b.sw_port(c))
    _net, dev_ip, hips, _unused = _lan_addr(0, 0, 24)
    for k in range(draw(st.integers(2, 4))):
        h = b.host(hips[k], 24, None, draw(st.booleans()))
        s = sws[draw(st.integers(0, 2))]
        b.link(s, b.sw_port(s), h, 1)
    _fix_roles(b.spec, draw)
    return b.spec


# ---------------------------------------------------------------------------------------------------------------------
# operations

UNKNOWN_IPS = ["172.16.5.5", "10.9.9.9", "10.1.1.250", "192.168.77.1"]
SHARED_SEGMENT_UNOWNED = ["10.200.1.3", "10.250.0.9"]  # unowned addresses on a segment shared by two routing devices


def _toggle_targets(spec: Dict) -> List[List]:
    ref = Ref(spec)
    out = []
    for n in spec["nodes"]:
        out.append(["power", n["name"]])
        if n["k"] == "switch":
            for p in sorted(set(ref.ports[n["name"]])):
                out.append(["nic", n["name"], p])
        elif n["k"] == "wrouter":
            out.append(["nic", n["name"], 1])
            out.append(["nic", n["name"], 2])
        else:
            for p in ref.ports[n["name"]]:
                if (n["name"], p) in ref.peer:
                    out.append(["nic", n["name"], p])
    return out


@st.composite
def ops_for(draw, spec: Dict, avoid_storm: bool = False, max_pairs: int = 30):
    hosts = [n["name"] for n in spec["nodes"] if n["k"] == "host"]
    servers = [n["name"] for n in spec["nodes"] if n["k"] == "host" and n["dns"]]
    clients = [h for h in hosts if h not in servers]
    pairs = [[a, b] for a in hosts for b in hosts if a != b]
    dns_pairs = [[c, s] for c in clients for s in servers]
    dur = spec.get("dur", 1)
    ops: List[List] = []
    # an address nobody owns on each host network (same plan as _lan_addr / the shared segment)
    unused_on_lans = sorted({n["ip"].rsplit(".", 1)[0] + (".99" if n["plen"] == 24 else ".29")
                             for n in spec["nodes"] if n["k"] == "host" and not n["ip"].startswith("10.50.")})
    if spec["family"] == "shared" and not avoid_storm:
        unused_on_lans.append("10.50.0.14")

    def round_(frac_ping=1.0, frac_dns=1.0):
        pp = list(draw(st.permutations(pairs)))[: max(1, int(len(pairs) * frac_ping))][:max_pairs]
        dd = list(draw(st.permutations(dns_pairs)))[: max(1, int(len(dns_pairs) * frac_dns))][:max_pairs] \
            if dns_pairs else []
        if draw(st.booleans()):
            return [["ping"] + p for p in pp] + [["dns"] + p for p in dd]
        return [["dns"] + p for p in dd] + [["ping"] + p for p in pp]

    ops += round_()  # cold
    ops.append(["tick"])
    ops += round_(0.5, 0.5)  # warm
    if spec["family"] == "loop" or draw(st.integers(0, 2)) == 0:
        for _ in range(draw(st.integers(1, 3))):
            ips = (UNKNOWN_IPS if avoid_storm else UNKNOWN_IPS + SHARED_SEGMENT_UNOWNED) + unused_on_lans * 2
            ops.append(["ping_ip", draw(st.sampled_from(hosts)), draw(st.sampled_from(ips))])
    if draw(st.booleans()):
        ops.append(["flush_arp"])
        ops.append(["tick"])
        ops += round_(0.5, 0.5)
    for m, peers in spec.get("multihomed", []):
        # exchange (warm by now), disable the NIC on the peers' subnet, exchange again, re-enable, exchange
        def both_ways():
            out = []
            for p_ in peers:
                out += [["ping", m, p_], ["ping", p_, m], ["ping", p_, m, 2]]
                if [m, p_] in dns_pairs:
                    out.append(["dns", m, p_])
                if [p_, m] in dns_pairs:
                    out += [["dns", p_, m], ["dns", p_, m, 2]]
            return list(draw(st.permutations(out)))

        ops += both_ways()
        ops.append(["nic", m, 2, "disable"])
        ops += both_ways()
        if draw(st.booleans()):
            ops += round_(0.5, 0.5)
        ops.append(["nic", m, 2, "enable"])
        ops += both_ways()
        if draw(st.booleans()):
            ops.append(["nic", m, 1, "disable"])
            ops += both_ways()
            ops.append(["nic", m, 1, "enable"])
            ops += both_ways()
    off_nodes = [n["name"] for n in spec["nodes"] if n.get("off")]
    if off_nodes and draw(st.integers(0, 2)) > 0:
        # the declared-OFF nodes are started (all or all but one) and a full round follows
        start = list(draw(st.permutations(off_nodes)))
        if len(start) > 1 and draw(st.booleans()):
            start = start[:-1]
        for n in start:
            ops.append(["power", n, "startup"])
            ops += [["tick"]] * (dur + 1)
        ops.append(["tick"])
        ops += round_()
    targets = _toggle_targets(spec)
    nt = draw(st.integers(0, 3))
    done = []
    for _ in range(nt):
        t = draw(st.sampled_from(targets))
        if t in done:
            continue
        done.append(t)
        if t[0] == "power":
            ops.append(["power", t[1], "shutdown"])
            ops += [["tick"]] * (dur + 1)
        else:
            ops.append(["nic", t[1], t[2], "disable"])
        if draw(st.booleans()):
            ops += round_(0.5, 0.5)
    if done:
        ops.append(["tick"])
        ops += round_()
        undo = list(draw(st.permutations(done)))
        if draw(st.integers(0, 3)) == 0:
            undo = undo[:-1]
        for t in undo:
            if t[0] == "power":
                ops.append(["power", t[1], "startup"])
                ops += [["tick"]] * (dur + 1)
            else:
                ops.append(["nic", t[1], t[2], "enable"])
        ops.append(["tick"])
        ops += round_()
        if draw(st.booleans()):
            ops.append(["flush_arp"])
            ops += round_(0.5, 0.5)
    return ops


@st.composite
def topo_case(draw, family: str, avoid_storm: bool = False, avoid_nh_host: bool = False):
    strat = {"lan": lan_spec, "routed": routed_spec, "shared": shared_spec, "multihome": multihome_spec,
             "dmz": dmz_spec, "wifi": wifi_spec, "loop": loop_spec, "ring": ring_spec}[family]
    if family == "routed":
        spec = draw(strat(avoid_storm=avoid_storm, avoid_nh_host=avoid_nh_host))
    else:
        spec = draw(strat(avoid_storm=avoid_storm))
    ops = draw(ops_for(spec, avoid_storm=avoid_storm))
    case = {"kind": "topo", "spec": spec, "ops": ops}
    if avoid_storm:
        case["avoid_storm"] = True
    if avoid_nh_host and family == "routed":
        case["avoid_nh_host"] = True
    return case
