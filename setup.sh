#!/bin/bash
# Offline setup: make sure hypothesis is importable by /venv/bin/python (install beside, not into, /venv if missing).
cd "$(dirname "$0")" || exit 2
PY=/venv/bin/python
if ! PYTHONPATH=/verif/.deps "$PY" -c "import hypothesis" 2>/dev/null; then
  "$PY" -m pip install --no-index --find-links /opt/veriftools/wheels --target /verif/.deps hypothesis || exit 2
fi
PYTHONPATH=/verif/.deps "$PY" -c "import hypothesis, primaite; print('setup ok', hypothesis.__version__)" || exit 2
